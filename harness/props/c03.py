"""C03 — the parser accepts exactly the expression grammar; printing is a parse fixpoint.

Real side: `qtoggleserver.core.expressions.parse(self_id, text, role)`, `str(expr)`, `expr.get_deps()`, the class
tree (`args`, `port_id`), `ExpressionParseError.to_json()['reason']`; a slice of the cases additionally goes through
a real port's `set_attr('expression', …)` / `get_attr('expression')` / disable + enable (re-parse of the stored text);
another slice are SEQUENCES of submissions on one port (kind 'seq': an accepted text, then whitespace mutations of exactly
the text the port has in place, legal re-spacings, single-token mutations, other texts, clear, re-enable, restart from
the persisted record).
Model side: QtVerif.Model.Parse via Driver/C03.lean; the live FUNCTIONS registry (names, NAME, MIN/MAX_ARGS, ARG_KINDS,
DEPS) and the table of non-ASCII decimal digits are extracted by introspection and handed to the driver. Whether a
function is ENABLED is NOT read from the live classes (the parser reads that very attribute): it is the documented
enabling condition evaluated on the hub configuration the harness has set up — HISTORY is known iff the persistence
driver supports samples and core.history_support is on, every other function is known — and cases run on a hub with
history and on hubs without (driver without samples support / history_support off / both).
Oracle on the real observations: (a) a text produced by the grammar generator (any whitespace layout) is accepted
with exactly the generated tree and dependencies; (b) for every accepted text, str(parse(str(parse(s)))) ==
str(parse(s)), same class tree, same dependencies, same literal values after the re-parse; (c) accept/reject and the
tree agree with the Lean grammar `Derives` (decided by the model, proved sound and complete for it); (d) on a port, every
submission — whatever expression is in place — is accepted iff the grammar accepts the submitted text, the accepted
expression is the one the grammar gives, and the text reported / persisted afterwards parses to the expression that is
live on the port (also after a restart from the persisted record).
"""
import asyncio
import math
import sys

from harness import fresh_c03
from harness.core import Broken, Failure, Prop

REASONS = {
    'empty': 'empty-expression',
    'unbalanced': 'unbalanced-parentheses',
    'unexpected-end': 'unexpected-end',
    'unexpected-char': 'unexpected-character',
    'unknown-function': 'unknown-function',
    'invalid-arg-num': 'invalid-number-of-arguments',
    'invalid-arg-kind': 'invalid-argument-kind',
}

ASCII_WS = [' ', ' ', ' ', ' ', '\t', '\n', '\r', '\x0b', '\x0c', '\x1c', '\x1d', '\x1e', '\x1f']
UNI_WS = ['\x85', '\xa0', ' ', ' ', ' ', ' ', ' ', ' ', ' ', ' ', '　']
# look like spaces / separators but are not str.isspace()
NOT_WS = ['​', '⁠', '﻿', '᠎', '\x00', '\x08', '\x7f', '­']
ID_CHARS = 'abcdefghijklmnopqrstuvwxyzABCDEFGHIJKLMNOPQRSTUVWXYZ0123456789_.-'
ILLEGAL = list('!#%&*/:;<=>?[]^{|}~"\'\\`+') + ['é', 'λ', 'İ', 'K', '​', '٣', '𝟙', '٠', 'Ａ', '１', '\U0001f600']
LITERALS = ['0', '1', '-1', '+5', '2', '10', '007', '1.5', '-0.25', '.5', '5.', '+.5', '-5.', '1e3', '1E-3', '1e+10',
            '1.e5', '.5e1', '1_000', '0_0', '1_0.0_1e1_0', 'inf', '-inf', '+Infinity', 'INF', 'iNfInItY', 'nan', 'NaN',
            '-nan', 'true', 'false', 'unavailable', '١٢', '٣.٥', '१२३', '1٢', '123456789012345678901234567890', '1e400',
            '0.1', '3.14159', '-2', '100', '42', '1e-400', '0e0', '00.00', '-0', '1_2_3', '9' * 30]
BAD_LITERALS = ['', 'True', 'FALSE', 'none', 'None', 'null', 'unavail', '1_', '_1', '1__0', '1._5', '1_.5', '1e_5',
                '1e', '1e+', 'e5', '.', '-', '+', '+-1', '--1', '1-', '1..2', '1.2.3', '0x10', '0b1', '0o7', '1f', '1L',
                'infi', 'infinit', 'infinityy', 'nann', 'na', 'in', '-', '+inf_', 'i_nf', '1 2', '1e5.5', '.e3', '1,5',
                'abc', 'x', 'true1', 'tru', 'un available', '١_', '1 2', '½', '²', '一', '1​', 'ⅷ', '①']
LIT_ALPHABET = '0159+-._eEinfatyINFTYux'


def enc(s):
    return ','.join(str(ord(c)) for c in s) or '-'


def dec(w):
    return '' if w == '-' else ''.join(chr(int(x)) for x in w.split(','))


class C03(Prop):
    ID = 'C03'
    N_QUICK = 40000
    N_THOROUGH = 1500000
    RULE = ('texts rendered from random well-formed trees over the live function registry (depth <= 4 quick / 6 '
            'thorough, every function, admissible arities and argument kinds, ids over the whole id charset, literals '
            'over the int()/float() grammar incl. non-ASCII digits) with random whitespace layouts (ASCII and Unicode '
            'str.isspace characters) or the canonical ", " layout; single-token mutations of such texts (dropped/added/'
            'doubled parentheses and commas, unknown/misspelt/disabled names, arity -1/+1, wrong argument kinds, illegal '
            'and look-alike characters, whitespace inside tokens and inside empty parentheses, trailing garbage, prefix '
            'swaps); token-soup garbage; literal fuzz over the numeric alphabet; well-formed texts calling (at top level '
            'or nested) a function that is not available on the hub of the case. Every case runs on one of four hub '
            'configurations: history on (persistence driver with samples support + core.history_support), or off by '
            'the setting, by the driver, or both. 3 % of the cases are sequences of 3-7 submissions on one real port: '
            'an accepted text, then whitespace inserted inside tokens of / anywhere in exactly the text in place '
            '(canonical or as reported), the same text again, all whitespace removed, single-token mutations of it, '
            'other good and bad texts, clear, disable+enable, and a restart from the persisted record. 4 % are sequences '
            '(kind multi) of 2-6 grammar texts for several ports parsed one after the other in one process, most of them '
            'calling the same function with own dependencies, the earlier ones with port references among the arguments; '
            'afterwards the canonical text of each is parsed again and its print/tree/dependencies/values are compared '
            'with those at acceptance and with the model; a failure counts only if a pristine copy of the process '
            '(forked before anything was parsed) shows it for the case alone. A case is '
            'non-trivial when the text contains a call or is rejected; distinct = distinct (text outcome) pairs')
    CORRESPONDENCE = ('Parse.parse (parseFuel/parseCall/scan/step/finish/parsePort/parseLiteral, Syntax.Expr.print, '
                      'Parse.deps) <-> core.expressions.parse / Function.parse / PortExpression.parse / '
                      'LiteralValue.parse / __str__ / get_deps; Parse.parse on every text submitted to a port <-> '
                      "BasePort.set_attr('expression') accept/refuse + get_expression(); Registry.enabled <-> the documented "
                      'enabling condition of each function on the hub configuration set up by the harness')
    TRUSTED = ['the registry (names, NAME, MIN/MAX_ARGS, ARG_KINDS, DEPS) and the decimal-digit table are read from the live '
               'modules and handed to the model (theorems hold for every registry and table); the enabled flag is not: '
               'HISTORY is known iff the harness configured samples support and history_support, every other function is '
               'known; the live ENABLED attributes are checked against that (and for being a bool or a callable '
               'returning a bool) in every run',
               'str.isspace table of the model is compared with CPython over all code points in every run']
    ASSUMPTIONS = ['texts are sequences of Unicode scalar values (Python strings with lone surrogates are not generated)',
                   'error positions/tokens are compared, and a difference is reported as a correspondence failure, '
                   'only after the reason agrees',
                   'whitespace between empty parentheses ("TIME( )") is rejected by the code; the grammar follows the code',
                   'theorem stored_text_reparses assumes RegCanonical (every class registered under its own NAME); the '
                   'live registry is tested for it (tag registry-canonical) and the fixpoint oracle runs on the real code']

    # ------------------------------------------------------------------------------------------ set-up
    def setup(self):
        sys.setrecursionlimit(10000)
        import logging
        logging.disable(logging.CRITICAL)
        from qtoggleserver.conf import settings
        from qtoggleserver.core import expressions as core_expressions
        from qtoggleserver.core.expressions import exceptions as ex
        from qtoggleserver.core.expressions import functions, literalvalues, port
        from qtoggleserver import persist
        from qtoggleserver.core import history
        import harness.persist_c03 as persist_c03
        self.settings = settings
        self.persist = persist
        self.history = history
        self.SamplesDriver = persist_c03.SamplesDriver
        self.cx = core_expressions
        self.ex = ex
        self.functions = functions
        self.LiteralValue = literalvalues.LiteralValue
        self.portmod = port
        settings.persist.driver = 'harness.persist_c03.SamplesDriver'
        settings.persist.file_path = None
        self.loop = asyncio.new_event_loop()
        asyncio.set_event_loop(self.loop)
        self.loop.run_until_complete(persist.query('ports'))
        for samples in (False, True):
            self.SamplesDriver.samples_supported = samples
            if persist.is_samples_supported() is not samples:
                raise Broken('the samples support of the persistence driver of the harness cannot be switched')
        self._driver = None
        self.regs = {}
        self.ports_ready = False
        # the own dependencies of every function class as they are when the process starts, before anything is parsed
        # (DEPS may be None / empty for "none"); what a class attribute holds later is not the registry
        self.own_deps = {name: frozenset(cls.DEPS or ()) for name, cls in functions.FUNCTIONS.items()}
        self.unreproduced = 0       # failures seen in this (long-lived) process that a fresh process does not show
        self.state_suspect = False  # a sequence of parses has been seen to change what later parses give
        # a pristine copy of this process (nothing parsed yet): observations "from a fresh process" at the price of a fork
        self.pristine = fresh_c03.Zygote(self)

    def teardown(self):
        try:
            self.pristine.close()
        except Exception:
            pass
        try:
            self.loop.close()
        except Exception:
            pass

    OFF_MODES = ('hs', 'drv', 'both')

    def _configure(self, slot, off='hs'):
        """Put the hub in configuration slot 1 = history available (persistence driver with samples support and
        core.history_support on) or slot 0 = history not available: off='hs' history_support off, 'drv' driver without
        samples support, 'both'. Returns (samples supported, history_support)."""
        samples = bool(slot) or off == 'hs'
        hs = bool(slot) or off == 'drv'
        self.SamplesDriver.samples_supported = samples
        self.settings.core.history_support = hs
        return samples, hs

    @staticmethod
    def _documented_enabled(name, cls, slot):
        """The documented enabling condition of a function, evaluated on the hub configuration set up by the harness
        (NOT the live ENABLED attribute, which is what the parser itself reads): HISTORY needs history (slot 1)."""
        if name == 'HISTORY' or cls.NAME == 'HISTORY':
            return bool(slot)
        return True

    def _snapshot(self, hist):
        """The live registry (names, NAME, arities, kinds, deps) + the documented `enabled` of hub configuration hist."""
        F = self.functions
        classes = (self.LiteralValue, self.portmod.PortValue, self.portmod.SelfPortValue, self.portmod.PortRef,
                   self.portmod.SelfPortRef, F.Function)
        entries = []
        for name, cls in F.FUNCTIONS.items():
            enabled = self._documented_enabled(name, cls, hist)
            kinds = []
            for k in list(cls.ARG_KINDS):
                ks = k if isinstance(k, tuple) else (k,)
                for kk in ks:
                    if isinstance(kk, type) and issubclass(kk, F.Function) and kk is not F.Function:
                        raise Broken(f'ARG_KINDS of {name} names a specific function class: not representable')
                kinds.append([any(issubclass(c, kk) for kk in ks) for c in classes])
            entries.append({'name': name, 'canon': cls.NAME, 'enabled': enabled, 'min': cls.MIN_ARGS,
                            'max': cls.MAX_ARGS, 'kinds': kinds, 'deps': sorted(self.own_deps.get(name, ()))})
        return entries

    def _enabled_diagnostics(self):
        """The live ENABLED attributes against the documented conditions, on every hub configuration; and their shape:
        a bool, or a callable returning a bool (anything else is truthy for the parser whatever the hub)."""
        out, shapes = [], []
        for slot, off in ((1, 'hs'), (0, 'hs'), (0, 'drv'), (0, 'both')):
            samples, hs = self._configure(slot, off)
            conf = f'samples support {samples}, history_support {hs}'
            try:
                he = self.history.is_enabled()
            except Exception as x:      # noqa
                he = f'raises {type(x).__name__}'
            if he is not bool(slot):
                out.append(f'history.is_enabled() is {he!r} on a hub with {conf}')
            for name, cls in self.functions.FUNCTIONS.items():
                try:
                    en = cls.ENABLED
                    if isinstance(en, bool):
                        live, shape = en, None
                    elif callable(en):
                        r = en()
                        live = bool(r)
                        shape = None if isinstance(r, bool) else f'a callable returning {type(r).__name__} {r!r}'
                    else:
                        live, shape = bool(en), f'{type(en).__name__} {en!r}'[:80]
                except Exception as x:      # noqa
                    live, shape = None, f'raises {type(x).__name__}: {x}'[:80]
                if shape is not None:
                    shapes.append(f'{name}.ENABLED read on the class is neither a bool nor a callable returning a bool: '
                                  f'{shape}')
                want = self._documented_enabled(name, cls, slot)
                if live is not want:
                    out.append(f'{name}.ENABLED read on the class counts as {live} on a hub with {conf}; documented: '
                               f'{"known" if want else "unknown function"}')
        return sorted(set(shapes)) + sorted(set(out))

    def _init_driver(self, driver):
        if self._driver is driver:
            return
        digits = []
        lo = None
        for cp in range(128, 0x110000):
            d = (not 0xD800 <= cp <= 0xDFFF) and chr(cp).isdecimal()
            if d and lo is None:
                lo = cp
            elif not d and lo is not None:
                digits.append((lo, cp - 1))
                lo = None
        self.digits = digits
        assert driver.ask('reset') == 'ok'
        assert driver.ask('digits ' + (','.join(f'{a}-{b}' for a, b in digits) or '-')) == 'ok'
        for slot in (0, 1):
            self.regs[slot] = self._snapshot(slot)
            for e in self.regs[slot]:
                line = ' '.join([
                    'fn', str(slot), enc(e['name']), enc(e['canon']), '1' if e['enabled'] else '0',
                    '-' if e['min'] is None else str(e['min']), '-' if e['max'] is None else str(e['max']),
                    ','.join(''.join('1' if b else '0' for b in k) for k in e['kinds']) or '-',
                    ';'.join(enc(d) for d in e['deps']) or '-'])
                rep = driver.ask(line)
                if rep != 'ok':
                    raise Broken(f'driver refused registry line {line!r}: {rep}')
        self._driver = driver

    # ------------------------------------------------------------------------------------------ generator
    def corpus(self):
        c = [{'kind': 'tables'}]
        texts = [
            ' ADD( 1 ,ADD($a, $), TIME())', 'ADD(1,)', 'TIME( )', 'TIME()', 'ADD(1,@a)', '1 2', '$a b', 'ADD(1,2) x',
            'A DD(1,2)', '(1)', 'ADD(1,2', 'ADD 1,2)', 'ADD(1,2))', '١٢', '1\x1c', 'ADD(\x1c1\x1c,2)', 'x', '12x', '-1.5x',
            '1.x', '', '   ', '$', '@', ' $ ', '$a.b-c_1', '$a$', '@(1)', '$a(1)', 'ADD (1, 2)', 'ADD　(1,2)',
            'ADD(1,2) ', 'ADD((1),2)', 'ADD(1,2)(', 'ADD(1,,2)', 'ADD(,1,2)', '()', ')', '(', ',', 'ADD(1,2),',
            'HISTORY(@a, 1, 2)', 'HISTORY($a, 1, 2)', 'HISTORY(@, 0, 0)', 'HISTORY(1, 0, 0)', 'ADD(1)', 'ABS(1, 2)',
            'add(1,2)', 'ADD(1, 2', 'ADD(1, MUL(2, 3)', 'ADD(1, MUL(2, 3)))', 'ADD(1, 2) ADD(1, 2)', 'ADD(1 2, 3)',
            'ADD(1, FOO(2))', 'ADD(1, ABS())', 'ADD(ABS(1,2), FOO(1))', 'ADD(FOO(1), ABS(1,2))', 'ADD($a b, FOO(1))',
            'IF(true, unavailable, false)', 'ADD(inf, -nan)', 'ADD(1_0, 1__0)', 'ADDé(1, 2)', 'ADD(1, 2)é', 'AD,D(1,2)',
            'ADD(@,1)', 'ADD(1;2)', 'nan(1)', 'MILLISECOND()', 'MILLISECOND(1)', 'BOW(0,3)', 'BOW(0,3,1)', 'ADD(1,2 )\n',
            'ADD(1,2)\x00', 'ADD(​1,2)', 'ADD(1​,2)', '$ ', ' $a ', 'ADD(1,　)',
        ]
        for i, t in enumerate(texts):
            for h in (0, 1):
                c.append({'kind': 'text', 'text': t, 'self': 'me', 'role': 1 + i % 4, 'hist': h, 'origin': 'corpus',
                          'expect': None, 'port': i % 3 == 0})
        # functions that exist only on some hubs: HISTORY is an unknown function when history is off, however it is off
        hist_texts = ['HISTORY(@a, 1552559696, 3600)', ' HISTORY( @a ,SUB(TIME(), 3600), -60 ) ',
                      'SUB($a, HISTORY(@a, SUB(TIME(), 86400), 600))', 'IF(GT($a, HISTORY(@, 0, 10)), 1, 0)',
                      'HISTORY(@a, 1)', 'HISTORY($a, 1, 2)', 'ADD(1, HISTORY(@a, 1, FOO(1)))', 'ADD(FOO(1), HISTORY(@a, 1, 2))']
        for i, t in enumerate(hist_texts):
            for h, off in ((1, 'hs'), (0, 'hs'), (0, 'drv'), (0, 'both')):
                c.append({'kind': 'text', 'text': t, 'self': 'me', 'role': 1, 'hist': h, 'off': off, 'origin': 'corpus',
                          'expect': None, 'port': i < 4, 'disabled': None if h or i == 7 else 'HISTORY'})
        # sequences on one port: re-submissions of (mutations of) the text in place
        S = lambda t: {'op': 'set', 'text': t}  # noqa
        seqs = [
            [S('ADD($a, MUL(22, 1.5))'), S('  ADD( $a ,MUL(22,1.5) )'), S('ADD($a, MUL(2 2, 1.5))'),
             S('ADD($a, M UL(22, 1.5))'), S('ADD($ a, MUL(22, 1.5))'), S('ADD($a, MUL(22, 1. 5))'), S('ADD($a,MUL(22,1.5))')],
            [S('MUL(100, $p1)'), S('MUL(10 0, $p1)'), S('MUL(100, $p 1)'), S('MUL(100, $p1)'), S(''), S('MUL(10 0, $p1)')],
            [S(' SUB( $ ,1_000 )'), {'op': 'cur-ws', 'seed': 1, 'inside': True, 'base': 'canon'},
             {'op': 'cur-ws', 'seed': 2, 'inside': True, 'base': 'rep'}, {'op': 'cur-nows', 'seed': 3, 'base': 'canon'},
             {'op': 'reenable'}, {'op': 'cur-mut', 'seed': 4, 'base': 'canon'}, {'op': 'cur-same', 'seed': 5, 'base': 'rep'}],
            [S('HISTORY(@a, 1, 2)'), S('HISTORY(@a, 1, 2)'), S('HIS TORY(@a, 1, 2)'), S('ADD(1, 2)'), S('ADD(1, HISTORY(@, 1, 2))')],
            [S('ADD(1,'), S('true'), S('tr ue'), S('$p1'), S('$p 1'), S('$ p1'), S('-1'), S('- 1')],
        ]
        for i, steps in enumerate(seqs):
            for h, off in ((1, 'hs'), (0, 'hs'), (0, 'drv')):
                c.append({'kind': 'seq', 'self': ('me', 'p1', 'a')[i % 3], 'hist': h, 'off': off, 'steps': steps,
                          'restart': True, 'origin': 'corpus'})
        # several expressions accepted in one process (several ports), sharing function classes that have own
        # dependencies; the earlier ones read ports: the dependencies of each are those of its own tree, and stay so
        M = lambda pid, t, role=1: {'self': pid, 'text': t, 'role': role, 'expect': None}  # noqa
        multis = [
            [M('p1', 'ADD($a, 1)'), M('p2', ' DELAY( $a ,1000 )'), M('p3', 'DELAY(MUL($b, 2), 500)'),
             M('p4', 'IF(GT(HOUR($ts), 12), $c, 0)'), M('p5', 'MINUTE()'), M('p6', 'SAMPLE($, 100)'), M('p7', 'ADD(TIME(), 1)')],
            [M('p1', 'DELAY($a, 1000)'), M('p2', 'DELAY(2, 3)')],
            [M('p1', 'HOUR($ts)'), M('p2', 'MINUTE()'), M('p3', 'YEAR($x)', 2)],
            [M('p1', 'HELD($a, 1, 10)'), M('p2', 'HELD($b, 1, 10)', 3), M('p1', 'HELD($, 0, 5)', 4)],
            [M('me', 'SAMPLE($, 100)'), M('p1', 'SAMPLE($, 100)'), M('a', 'ADD(SAMPLE($p1, 5), TIME())')],
            [M('p1', 'ADD($a, $b)'), M('p2', 'ADD($c, 1)'), M('p3', 'MUL(2, 3)')],
        ]
        for items in multis:
            c.append({'kind': 'multi', 'hist': 1, 'off': 'hs', 'items': items, 'origin': 'corpus'})
        c.append({'kind': 'litbatch', 'seed': 1, 'n': 2000})
        return c

    def _ws(self, rng, p=0.35):
        if rng.random() > p:
            return ''
        n = rng.choice([1, 1, 1, 2, 3])
        pool = ASCII_WS if rng.random() < 0.8 else UNI_WS
        return ''.join(rng.choice(pool) for _ in range(n))

    def _ident(self, rng):
        if rng.random() < 0.5:
            return rng.choice(['a', 'b', 'x', 'p1', 'port', 'me', 'living.temp', 'a-b', 'A_1', '1', '-', '.', '_', '0.5',
                               'e5', 'inf', 'true'])
        return ''.join(rng.choice(ID_CHARS) for _ in range(rng.randint(1, 8)))

    def _literal(self, rng):
        r = rng.random()
        if r < 0.7:
            return rng.choice(LITERALS)
        if r < 0.8:
            return str(rng.randint(-10 ** 6, 10 ** 6))
        if r < 0.9:
            return repr(rng.choice([rng.uniform(-1000, 1000), rng.random() * 10 ** rng.randint(-30, 30)]))
        x = str(rng.randint(0, 99999))
        if len(x) > 2:
            k = rng.randrange(1, len(x))
            x = x[:k] + '_' + x[k:]
        return rng.choice(['', '-', '+']) + x

    def _leaf(self, rng, kind):
        """kind = 6 admission flags (lit portVal selfVal portRef selfRef call) -> tree"""
        opts = []
        if kind[0]:
            opts += ['L'] * 4
        if kind[1]:
            opts += ['V'] * 3
        if kind[2]:
            opts += ['SV']
        if kind[3]:
            opts += ['R'] * 2
        if kind[4]:
            opts += ['SR']
        if not opts:
            return None
        o = rng.choice(opts)
        if o == 'L':
            return ['L', self._literal(rng)]
        if o in ('V', 'R'):
            return [o, self._ident(rng)]
        return [o]

    DEFAULT_KIND = [True, True, True, False, False, True]

    def _tree(self, rng, slot, depth, kind=None):
        kind = kind or [True, True, True, True, True, True]
        want_call = kind[5] and depth > 0 and rng.random() < (0.75 if depth > 1 else 0.5)
        if not want_call:
            leaf = self._leaf(rng, kind)
            if leaf is not None:
                return leaf
            if not kind[5]:
                return ['L', '0']
        reg = [e for e in self.regs[slot] if e['enabled'] and e['canon'] == e['name']]
        f = rng.choice(reg)
        lo = f['min'] or 0
        hi = f['max'] if f['max'] is not None else lo + rng.choice([0, 0, 1, 2, 3])
        n = rng.randint(lo, max(lo, hi))
        args = []
        for i in range(n):
            k = f['kinds'][i] if i < len(f['kinds']) else self.DEFAULT_KIND
            args.append(self._tree(rng, slot, depth - 1, k))
        return ['C', f['name'], args]

    def _render(self, rng, t, canonical):
        if t[0] == 'L':
            return t[1]
        if t[0] == 'V':
            return '$' + t[1]
        if t[0] == 'R':
            return '@' + t[1]
        if t[0] == 'SV':
            return '$'
        if t[0] == 'SR':
            return '@'
        if canonical:
            return t[1] + '(' + ', '.join(self._render(rng, a, True) for a in t[2]) + ')'
        return (t[1] + self._ws(rng, 0.15) + '(' +
                ','.join(self._ws(rng) + self._render(rng, a, False) + self._ws(rng) for a in t[2]) + ')')

    def _expected_deps(self, t, slot, self_id):
        if t[0] == 'V':
            return {'$' + t[1]}
        if t[0] == 'SV':
            return {'$' + self_id}
        if t[0] == 'C':
            d = set()
            for e in self.regs[slot]:
                if e['name'] == t[1]:
                    d |= set(e['deps'])
            for a in t[2]:
                d |= self._expected_deps(a, slot, self_id)
            return d
        return set()

    def _mutate(self, rng, text, slot):
        """single-token mutation -> (text, mutation name)"""
        names = [e['name'] for e in self.regs[slot]]
        idx = lambda chars: [i for i, c in enumerate(text) if c in chars]  # noqa
        m = rng.choice(['drop-paren', 'drop-comma', 'add-paren', 'add-comma', 'dup-token', 'unknown-name', 'illegal-char',
                        'ws-in-token', 'not-ws', 'trailing', 'swap-prefix', 'ws-empty-parens', 'bad-literal', 'case',
                        'drop-char', 'kind-ref', 'empty-arg', 'leading'])
        if m == 'drop-paren':
            ii = idx('()')
            if ii:
                i = rng.choice(ii)
                return text[:i] + text[i + 1:], m
        if m == 'drop-comma':
            ii = idx(',')
            if ii:
                i = rng.choice(ii)
                return text[:i] + rng.choice(['', ' ']) + text[i + 1:], m
        if m == 'add-paren':
            i = rng.randint(0, len(text))
            return text[:i] + rng.choice('()') + text[i:], m
        if m == 'add-comma':
            i = rng.randint(0, len(text))
            return text[:i] + ',' + text[i:], m
        if m == 'dup-token':
            ii = idx('(),')
            if ii:
                i = rng.choice(ii)
                return text[:i] + text[i] + self._ws(rng) + text[i:], m
        if m == 'unknown-name':
            cands = [n for n in names if n + '(' in text or n + ' ' in text or n + '\t' in text]
            if cands:
                n = rng.choice(cands)
                i = text.index(n)
                new = rng.choice(['FOO', n.lower(), n + '2', n[:-1], n + n, '_' + n, n[0] + ' ' + n[1:], '', 'Ｍ' + n,
                                  n.capitalize(), n + '_', '0' + n])
                return text[:i] + new + text[i + len(n):], m
        if m == 'illegal-char':
            i = rng.randint(0, len(text))
            return text[:i] + rng.choice(ILLEGAL) + text[i:], m
        if m == 'ws-in-token':
            ii = [i for i in range(1, len(text)) if text[i - 1] not in '(), \t\n' and text[i] not in '(), \t\n']
            if ii:
                i = rng.choice(ii)
                return text[:i] + rng.choice(ASCII_WS + UNI_WS) + text[i:], m
        if m == 'not-ws':
            i = rng.randint(0, len(text))
            return text[:i] + rng.choice(NOT_WS) + text[i:], m
        if m == 'trailing':
            return text + self._ws(rng) + rng.choice(['x', ',', '(', ')', '1', '$a', '()', 'ADD(1,2)', ';', '.']), m
        if m == 'leading':
            return rng.choice(['x', ',', '(', ')', '1', '$', '@', '-', '()']) + self._ws(rng) + text, m
        if m == 'swap-prefix':
            ii = idx('$@')
            if ii:
                i = rng.choice(ii)
                return text[:i] + ('@' if text[i] == '$' else '$') + text[i + 1:], m
        if m == 'ws-empty-parens':
            i = text.find('()')
            if i >= 0:
                return text[:i + 1] + rng.choice(ASCII_WS + UNI_WS) + text[i + 1:], m
        if m == 'bad-literal':
            ii = [i for i, c in enumerate(text) if c.isdigit()]
            new = rng.choice(BAD_LITERALS)
            if ii:
                i = rng.choice(ii)
                return text[:i] + new + text[i + 1:], m
            return new, m
        if m == 'case':
            ii = [i for i, c in enumerate(text) if c.isalpha()]
            if ii:
                i = rng.choice(ii)
                return text[:i] + text[i].swapcase() + text[i + 1:], m
        if m == 'kind-ref':
            ii = idx('$')
            if ii:
                i = rng.choice(ii)
                return text[:i] + '@' + text[i + 1:], m
        if m == 'empty-arg':
            ii = idx('(,')
            if ii:
                i = rng.choice(ii)
                return text[:i + 1] + self._ws(rng) + ',' + text[i + 1:], m
        if text:
            i = rng.randrange(len(text))
            return text[:i] + text[i + 1:], 'drop-char'
        return '(', 'add-paren'

    def _bad_tree(self, rng, slot, depth):
        """A tree violating arity or kinds at exactly one call."""
        t = self._tree(rng, slot, max(1, depth), [False, False, False, False, False, True])
        calls = []

        def walk(x):
            if x[0] == 'C':
                calls.append(x)
                for a in x[2]:
                    walk(a)
        walk(t)
        c = rng.choice(calls)
        f = next(e for e in self.regs[slot] if e['name'] == c[1])
        how = rng.choice(['arity-', 'arity+', 'kind'])
        if how == 'arity-' and c[2]:
            c[2].pop(rng.randrange(len(c[2])))
            if f['min'] is not None and len(c[2]) >= f['min']:
                while len(c[2]) >= f['min'] and c[2]:
                    c[2].pop()
        elif how == 'arity+' and f['max'] is not None:
            while len(c[2]) <= f['max']:
                c[2].insert(rng.randint(0, len(c[2])), self._tree(rng, slot, 0, self.DEFAULT_KIND))
        elif c[2]:
            i = rng.randrange(len(c[2]))
            k = f['kinds'][i] if i < len(f['kinds']) else self.DEFAULT_KIND
            bad = [not b for b in k[:5]] + [not k[5]]
            leaf = self._leaf(rng, bad[:5] + [False])
            if leaf is None and bad[5]:
                leaf = self._tree(rng, slot, 1, [False] * 5 + [True])
            if leaf is not None:
                c[2][i] = leaf
            how = 'kind'
        return t, 'bad-' + how

    def gen(self, rng, tier):
        r = rng.random()
        slot = 1 if rng.random() < 0.6 else 0
        base = {'kind': 'text', 'self': rng.choice(['me', 'p1', 'a', 'x.y-z']), 'role': rng.randint(1, 4), 'hist': slot,
                'off': rng.choice(['hs', 'hs', 'drv', 'both']), 'expect': None, 'port': rng.random() < 0.04}
        if r < 0.005:
            return {'kind': 'litbatch', 'seed': rng.randrange(1 << 30), 'n': 300}
        maxd = 4 if tier == 'quick' else 6
        depth = rng.choice([0, 1, 1, 2, 2, 3, maxd])
        if r < 0.035:
            return self._gen_seq(rng, slot, base)
        if r < 0.075:
            return self._gen_multi(rng, slot, base)
        if r < 0.05 and slot == 0:
            c = self._gen_disabled(rng, depth, base)
            if c is not None:
                return c
        if r < 0.40:
            t = self._tree(rng, slot, depth)
            canonical = rng.random() < 0.25
            text = self._render(rng, t, canonical)
            if not canonical:
                text = self._ws(rng) + text + self._ws(rng)
            return {**base, 'text': text, 'origin': 'grammar' + ('-canonical' if canonical else ''), 'expect': t}
        if r < 0.50:
            t, how = self._bad_tree(rng, slot, depth)
            text = self._ws(rng) + self._render(rng, t, rng.random() < 0.25) + self._ws(rng)
            return {**base, 'text': text, 'origin': how}
        if r < 0.88:
            t = self._tree(rng, slot, max(depth, 1) if rng.random() < 0.85 else 0)
            text = self._ws(rng) + self._render(rng, t, rng.random() < 0.25) + self._ws(rng)
            text, how = self._mutate(rng, text, slot)
            if rng.random() < 0.1:
                text, how2 = self._mutate(rng, text, slot)
                how = how + '+' + how2
            return {**base, 'text': text, 'origin': 'mut:' + how}
        if r < 0.95:
            names = [e['name'] for e in self.regs[slot]]
            toks = ['(', ')', ',', '(', ')', ',', ' ', '$', '@', '$a', '@b', '1', '2.5', 'x', 'FOO', '\t', '　', ';']
            n = rng.randint(1, 9)
            text = ''.join(rng.choice(toks) if rng.random() < 0.75 else rng.choice(names) for _ in range(n))
            return {**base, 'text': text, 'origin': 'soup'}
        n = rng.randint(1, 7)
        lit = ''.join(rng.choice(LIT_ALPHABET + '٣') for _ in range(n))
        if rng.random() < 0.5:
            lit = rng.choice(BAD_LITERALS + LITERALS)
        if rng.random() < 0.5:
            return {**base, 'text': self._ws(rng) + lit + self._ws(rng), 'origin': 'literal'}
        return {**base, 'text': f'ADD({self._ws(rng)}{lit}{self._ws(rng)}, 1)', 'origin': 'literal-arg'}

    def _gen_disabled(self, rng, depth, base):
        """A well-formed text (by the registry of a hub with history) that calls a function which is not available on
        the hub of the case (slot 0): at top level or as an inner call."""
        on0 = {e['name'] for e in self.regs[0] if e['enabled']}
        cands = [e for e in self.regs[1] if e['enabled'] and e['name'] not in on0]
        if not cands:
            return None
        f = rng.choice(cands)
        lo = f['min'] or 0
        hi = f['max'] if f['max'] is not None else lo + 2
        inner = ['C', f['name'], [self._tree(rng, rng.choice([0, 1]), min(depth, 2),
                                             f['kinds'][i] if i < len(f['kinds']) else self.DEFAULT_KIND)
                                  for i in range(rng.randint(lo, max(lo, hi)))]]
        t = inner
        if rng.random() < 0.6:
            outer = self._tree(rng, 0, max(1, min(depth, 3)), [False] * 5 + [True])
            spots = []

            def walk(x):
                if x[0] == 'C':
                    g = next(e for e in self.regs[0] if e['name'] == x[1])
                    for i, a in enumerate(x[2]):
                        k = g['kinds'][i] if i < len(g['kinds']) else self.DEFAULT_KIND
                        if k[5]:
                            spots.append((x, i))
                        walk(a)
            walk(outer)
            if spots:
                x, i = rng.choice(spots)
                x[2][i] = inner
                t = outer
        canonical = rng.random() < 0.3
        text = self._render(rng, t, canonical)
        if not canonical:
            text = self._ws(rng) + text + self._ws(rng)
        return {**base, 'text': text, 'origin': 'disabled-fn', 'disabled': f['name']}

    def _gen_seq(self, rng, slot, base):
        """A sequence of submissions on one port: an accepted text first, then mostly re-submissions derived (at run
        time, from the seed of the step) from exactly the text the port has in place."""
        def good():
            t = self._tree(rng, slot, rng.choice([1, 1, 2, 2, 3]), None if rng.random() < 0.15 else [False] * 5 + [True])
            canonical = rng.random() < 0.5
            text = self._render(rng, t, canonical)
            return text if canonical else self._ws(rng) + text + self._ws(rng)

        steps = [{'op': 'set', 'text': good()}]
        for _ in range(rng.randint(2, 6)):
            r = rng.random()
            st = {'seed': rng.randrange(1 << 30), 'base': 'canon' if rng.random() < 0.7 else 'rep'}
            if r < 0.45:
                steps.append({'op': 'cur-ws', 'inside': rng.random() < 0.75, **st})
            elif r < 0.53:
                steps.append({'op': 'cur-same', **st})
            elif r < 0.65:
                steps.append({'op': 'cur-mut', **st})
            elif r < 0.72:
                steps.append({'op': 'cur-nows', **st})
            elif r < 0.81:
                steps.append({'op': 'set', 'text': good()})
            elif r < 0.90:
                steps.append({'op': 'set', 'text': self._mutate(rng, good(), slot)[0]})
            elif r < 0.96:
                steps.append({'op': 'reenable'})
            else:
                steps.append({'op': 'set', 'text': ''})
        return {'kind': 'seq', 'self': base['self'], 'hist': slot, 'off': base['off'], 'steps': steps,
                'restart': rng.random() < 0.3, 'origin': 'seq'}

    def _step_text(self, step, canon, rep, slot):
        """The text submitted by a step, given the canonical text of the expression in place and the reported text."""
        op = step['op']
        if op == 'set':
            return step['text']
        import random
        rng = random.Random(step['seed'])
        text = rep if step.get('base') == 'rep' and isinstance(rep, str) else canon
        if op == 'cur-same':
            return text
        if op == 'cur-nows':
            return ''.join(c for c in text if not c.isspace())
        if op == 'cur-ws':
            for _ in range(rng.choice([1, 1, 1, 2])):
                sep = '(),'
                inside = [i for i in range(1, len(text)) if text[i - 1] not in sep and text[i] not in sep and
                          not text[i - 1].isspace() and not text[i].isspace()]
                i = rng.choice(inside) if step.get('inside') and inside else rng.randint(0, len(text))
                ws = ' ' if rng.random() < 0.5 else rng.choice(ASCII_WS + UNI_WS)
                text = text[:i] + ws + text[i:]
            return text
        if op == 'cur-mut':
            return self._mutate(rng, text, slot)[0]
        raise Broken(f'unknown step {step!r}')

    def _shrink_text(self, t):
        n = len(t)
        for size in (n // 2, n // 4, 3, 2, 1):
            if size < 1:
                continue
            for i in range(0, n - size + 1, max(1, size // 2) if size > 2 else 1):
                yield t[:i] + t[i + size:]

    def shrink_candidates(self, case):
        if case.get('kind') == 'seq':
            steps = case['steps']
            base = {**case, 'origin': 'shrunk'}
            if any(s['op'] not in ('set', 'reenable') for s in steps):
                # the texts the symbolic steps stand for, so that the replay names every submitted text
                try:
                    self._configure(case['hist'], case.get('off', 'hs'))
                    self._ensure_ports()
                    texts = self.loop.run_until_complete(self._port_seq(case, None, texts_only=True))
                    yield {**base, 'steps': [s if s['op'] == 'reenable' else {'op': 'set', 'text': t}
                                             for s, t in zip(steps, texts)]}
                except Broken:
                    raise
                except Exception:       # noqa
                    pass
            if case.get('restart'):
                yield {**base, 'restart': False}
            for i in range(len(steps) - 1, -1, -1):
                yield {**base, 'steps': steps[:i] + steps[i + 1:]}
            if len(steps) <= 3:
                for i, s in enumerate(steps):
                    if s['op'] == 'set' and len(s['text']) <= 60:
                        for t in self._shrink_text(s['text']):
                            yield {**base, 'steps': steps[:i] + [{'op': 'set', 'text': t}] + steps[i + 1:]}
            return
        if case.get('kind') == 'multi':
            items = [{**it, 'expect': None} for it in case['items']]
            base = {**case, 'origin': 'shrunk'}
            for i in range(len(items) - 1, -1, -1):
                if len(items) > 1:
                    yield {**base, 'items': items[:i] + items[i + 1:]}
            if len(items) <= 3:
                for i, it in enumerate(items):
                    if it['text'] != it['text'].strip():
                        yield {**base, 'items': items[:i] + [{**it, 'text': it['text'].strip()}] + items[i + 1:]}
                    if len(it['text']) <= 80:
                        for t in self._shrink_text(it['text']):
                            yield {**base, 'items': items[:i] + [{**it, 'text': t}] + items[i + 1:]}
                    if it['self'] != 'p' + str(i + 1):
                        yield {**base, 'items': items[:i] + [{**it, 'self': 'p' + str(i + 1)}] + items[i + 1:]}
            return
        if case.get('kind') != 'text':
            return
        t = case['text']
        n = len(t)
        base = {**case, 'expect': None, 'origin': 'shrunk', 'port': case.get('port', False), 'disabled': None}
        for size in (n // 2, n // 4, 3, 2, 1):
            if size < 1:
                continue
            for i in range(0, n - size + 1, max(1, size // 2) if size > 2 else 1):
                yield {**base, 'text': t[:i] + t[i + size:]}
        for i, c in enumerate(t):
            if ord(c) > 127:
                yield {**base, 'text': t[:i] + ('1' if c.isdecimal() else ' ' if c.isspace() else 'x') + t[i + 1:]}
        if case.get('port'):
            yield {**base, 'port': False}

    # ------------------------------------------------------------------------------------------ real side
    def _tree_of(self, e):
        P = self.portmod
        if isinstance(e, self.functions.Function):
            return ['C', type(e).NAME, [self._tree_of(a) for a in e.args]]
        if isinstance(e, P.SelfPortValue):
            return ['SV']
        if isinstance(e, P.PortValue):
            return ['V', e.port_id]
        if isinstance(e, P.SelfPortRef):
            return ['SR']
        if isinstance(e, P.PortRef):
            return ['R', e.port_id]
        if isinstance(e, self.LiteralValue):
            return ['L', str(e)]
        return ['?', type(e).__name__]

    def _values_of(self, e, out):
        if isinstance(e, self.functions.Function):
            for a in e.args:
                self._values_of(a, out)
        elif isinstance(e, self.LiteralValue):
            v = e.value
            out.append('nan' if isinstance(v, float) and math.isnan(v) else repr(v))
        return out

    def _real_parse(self, self_id, text, role):
        try:
            e = self.cx.parse(self_id, text, role)
        except self.ex.ExpressionParseError as x:
            try:
                j = x.to_json()
            except Exception as y:       # noqa
                j = {'reason': f'to_json failed: {type(y).__name__}'}
            return {'st': 'err', 'reason': j.get('reason'), 'pos': j.get('pos'), 'tok': j.get('token'),
                    'num': j.get('num'), 'cls': type(x).__name__}, None
        except RecursionError:
            raise
        except Exception as x:
            return {'st': 'crash', 'cls': type(x).__name__, 'msg': str(x)[:100]}, None
        return {'st': 'ok', 'print': str(e), 'tree': self._tree_of(e), 'deps': sorted(e.get_deps()),
                'vals': self._values_of(e, [])}, e

    def _model_parse(self, driver, slot, self_id, text):
        rep = driver.ask(f'parse {slot} {enc(self_id)} {enc(text)}')
        w = rep.split(' ')
        if w[0] == 'ok':
            toks = w[3:]
            pos = [0]

            def rd():
                t = toks[pos[0]]
                pos[0] += 1
                if t == 'SV' or t == 'SR':
                    return [t]
                if t[0] in 'LVR':
                    return [t[0], dec(t[1:])]
                if t[0] == 'C':
                    n, name = t[1:].split(':')
                    return ['C', dec(name), [rd() for _ in range(int(n))]]
                raise Broken(f'bad tree token {t!r}')
            tree = rd()
            if pos[0] != len(toks):
                raise Broken(f'trailing tree tokens in {rep!r}')
            deps = [] if w[2] == '-' else [dec(x) for x in w[2].split(';')]
            return {'st': 'ok', 'print': dec(w[1]), 'tree': tree, 'deps': sorted(set(deps))}
        if w[0] == 'err':
            if w[1] == 'crash':
                return {'st': 'crash'}
            if w[1] not in REASONS:
                raise Broken(f'model returned {rep!r} for {text!r}')
            return {'st': 'err', 'reason': REASONS[w[1]], 'pos': int(w[2]), 'tok': dec(w[3]), 'num': int(w[4])}
        raise Broken(f'driver replied {rep!r} to parse of {text!r}')

    # ------------------------------------------------------------------------------------------ port level
    def _ensure_ports(self):
        if self.ports_ready:
            return
        from qtoggleserver.core import ports as core_ports
        self.core_ports = core_ports

        class VPort(core_ports.Port):
            TYPE = 'number'
            WRITABLE = True

            def __init__(self, port_id):
                super().__init__(port_id)
                self._v = 0

            async def read_value(self):
                return self._v

            async def write_value(self, value):
                self._v = value

        self.VPort = VPort
        ports = self.loop.run_until_complete(core_ports.load([
            {'driver': VPort, 'port_id': pid} for pid in ('me', 'p1', 'a', 'x.y-z')]))
        for p in ports:
            # enable once (so that the port is fully set up), then keep it disabled: a disabled port is never
            # evaluated by core.main.update(), and evaluating generated expressions is not this property's business
            # (BOM($) on its own port walks 1.7e9 months)
            self.loop.run_until_complete(p.enable())
            self.loop.run_until_complete(p.disable())
        self.ports = {p.get_id(): p for p in ports}
        self.ports_ready = True

    async def _port_roundtrip(self, pid, text):
        """On a disabled port: set_attr('expression') -> reported text -> enable() (re-parse of str(expr)) ->
        reported / saved / canonical text -> disable() -> clear. No polling pass runs while the port is enabled."""
        cp = self.core_ports
        port = self.ports[pid]
        try:
            await port.set_attr('expression', text)
        except cp.InvalidAttributeValue as x:
            d = getattr(x, 'details', None) or {}
            return {'st': 'err', 'reason': d.get('reason')}
        stored = await port.get_attr('expression')
        await port.enable()
        again = await port.get_attr('expression')
        saved = (await port.prepare_for_save()).get('expression')
        port.invalidate_attrs()
        canon = await port.get_attr('expression')          # str() of the expression re-parsed by enable()
        await port.disable()
        await port.set_attr('expression', '')
        return {'st': 'ok', 'stored': stored, 'again': again, 'saved': saved, 'canon': canon}

    def _obs(self, e):
        """What the property compares of an expression object (None = no expression)."""
        if e is None:
            return None
        return {'print': str(e), 'tree': self._tree_of(e), 'deps': sorted(e.get_deps()), 'vals': self._values_of(e, [])}

    async def _port_seq(self, case, driver, texts_only=False):
        """Submissions in sequence on one (disabled, loaded) port. After every step: the text GET /ports reports, the
        text prepare_for_save persists and the text reported once the attribute cache is dropped must each parse to the
        expression that is live on the port (or be empty when there is none); a submission is accepted iff the grammar
        (the model) accepts the submitted text, and then the live expression is the one the grammar gives.
        -> (failure | None, tags), or the list of submitted texts when texts_only."""
        cp = self.core_ports
        pid, slot = case['self'], case['hist']
        port = self.ports[pid]
        tags = []
        texts = []
        log = []
        fail = None

        def P(msg, **kw):
            return Failure('property', f'port {pid}, submissions {[t for t in texts if t is not None]!r}: {msg}',
                           real={'steps': log, **kw})

        await port.set_attr('expression', '')
        for n, step in enumerate(case['steps']):
            live0 = port.get_expression()
            before = self._obs(live0)
            if step['op'] == 'reenable':
                texts.append(None)
                if texts_only:
                    continue
                await port.enable()          # re-parses str(expression); no polling pass runs meanwhile
                after = self._obs(port.get_expression())
                await port.disable()
                log.append({'op': 'reenable', 'live': after and after['print']})
                tags.append('seq:reenable')
                if after != before:
                    fail = P(f'disable + enable changes the expression of the port from {before} to {after}')
                    break
                text, accepted = None, None
            else:
                canon = before['print'] if before else ''
                text = self._step_text(step, canon, await port.get_attr('expression'), slot)
                if any(0xD800 <= ord(c) <= 0xDFFF for c in text):
                    text = canon
                texts.append(text)
                try:
                    await port.set_attr('expression', text)
                    accepted, reason = True, None
                except cp.InvalidAttributeValue as x:
                    accepted, reason = False, (getattr(x, 'details', None) or {}).get('reason')
                except Exception as x:      # noqa
                    if texts_only:
                        continue
                    fail = P(f'submitting {text!r} raises {type(x).__name__}: {str(x)[:100]}')
                    break
                if texts_only:
                    continue
                live = port.get_expression()
                now = self._obs(live)
                log.append({'op': step['op'], 'text': text, 'accepted': accepted, 'reason': reason,
                            'live': now and now['print']})
                tags.append(f'seq:{step["op"]}:' + ('accepted' if accepted else 'refused'))
                if text == '':
                    if not accepted or live is not None:
                        fail = P(f'the empty text does not clear the expression (accepted={accepted}, live={now})')
                        break
                else:
                    model = self._model_parse(driver, slot, pid, text)
                    place = f'with {canon!r} in place' if before else 'with no expression in place'
                    if accepted and model['st'] != 'ok':
                        fail = P(f'{text!r} is ACCEPTED {place}, but it is not derivable from the grammar '
                                 f'({model.get("reason")} at {model.get("pos")}, token {model.get("tok")!r})', model=model)
                        break
                    if not accepted and model['st'] == 'ok':
                        if reason != 'circular-dependency':
                            fail = P(f'{text!r} is REFUSED ({reason}) {place}, but it is derivable from the grammar as '
                                     f'{model["print"]!r}', model=model)
                            break
                        tags.append('seq:circular')
                    if accepted:
                        if now is None or now['tree'] != model['tree'] or now['print'] != model['print']:
                            fail = P(f'{text!r} is accepted {place}, but the expression of the port is now {now}; the '
                                     f'grammar gives {model["tree"]} printed {model["print"]!r}', model=model)
                            break
                    else:
                        if model['st'] == 'err' and reason != model['reason']:
                            rv, _ = self._real_parse(pid, text, self.cx.ROLE_VALUE)
                            kind = 'property' if rv['st'] != 'err' or rv['reason'] != reason else 'correspondence'
                            fail = Failure(kind, f'port {pid}: {text!r} is refused {place} with reason {reason}; '
                                           f'grammar: {model["reason"]}; parse(): {rv}', real={'steps': log, 'parse': rv},
                                           model=model)
                            break
                        if now != before:
                            fail = P(f'refused {text!r} changes the expression of the port from {before} to {now}')
                            break
            # ---- the texts the hub reports / persists, against the live expression
            live = port.get_expression()
            now = self._obs(live)
            shown = [('reported by GET', await port.get_attr('expression')),
                     ('persisted', (await port.prepare_for_save()).get('expression'))]
            if n % 2 or step['op'] == 'reenable':
                port.invalidate_attr('expression')
                shown.append(('reported after the attribute cache is dropped', await port.get_attr('expression')))
            for what, t in shown:
                if now is None:
                    if t not in ('', None):
                        fail = P(f'the text {what} is {t!r}, but the port has no expression')
                        break
                    continue
                r3, _ = self._real_parse(pid, t, self.cx.ROLE_VALUE) if isinstance(t, str) else ({'st': 'none'}, None)
                if r3['st'] != 'ok':
                    fail = P(f'the text {what} is {t!r}, which does not parse ({r3}); the live expression is '
                             f'{now["print"]!r}', parse=r3)
                    break
                if any(r3[k] != now[k] for k in ('print', 'tree', 'deps', 'vals')):
                    fail = P(f'the text {what} is {t!r}, which parses to {r3["print"]!r} {r3["tree"]}; the live '
                             f'expression is {now["print"]!r} {now["tree"]}', parse=r3)
                    break
            if fail is not None:
                break
        if texts_only:
            await port.set_attr('expression', '')
            return texts
        # ---- restart: a new port object loaded from the persisted record has the same expression
        if fail is None and case.get('restart'):
            before = self._obs(port.get_expression())
            await port.save()
            await port.remove(persisted_data=False)
            new = (await cp.load([{'driver': self.VPort, 'port_id': pid}]))[0]
            self.ports[pid] = new
            if new.is_enabled():
                await new.disable()
            after = self._obs(new.get_expression())
            tags.append('seq:restart:' + ('expr' if before else 'none'))
            if after != before:
                fail = P(f'restart: the expression of the port was {before and before["print"]!r} before; the port loaded '
                         f'from the persisted record {(await new.prepare_for_save()).get("expression")!r} has '
                         f'{after and after["print"]!r}', before=before, after=after)
            port = new
        await port.set_attr('expression', '')
        if case.get('restart'):
            await port.save()
        tags.append(f'seq-len:{len(case["steps"])}')
        return fail, tags

    # ------------------------------------------------------------------------------------------ sequences of expressions
    def _fn_names(self, t, out):
        if t[0] == 'C':
            out.append(t[1])
            for a in t[2]:
                self._fn_names(a, out)
        return out

    def _observe_multi(self, case):
        """Real side of a 'multi' case: the texts are parsed one after the other in this process (as when several ports
        get their expressions); once all are in, the canonical text of every accepted one is parsed again (port enable /
        hub restart re-parse the stored text) and the accepted expression object is looked at again."""
        self._configure(case['hist'], case.get('off', 'hs'))
        acc = [self._real_parse(it['self'], it['text'], it['role']) for it in case['items']]
        obs = []
        for it, (r, e) in zip(case['items'], acc):
            o = {'first': r}
            if r['st'] == 'ok':
                o['again'] = self._real_parse(it['self'], r['print'], it['role'])[0]
                o['now'] = self._obs(e)
            obs.append(o)
        return obs

    def _judge_multi(self, case, obs, driver):
        """Oracle of a 'multi' case on observations `obs` -> Failure | None."""
        slot = case['hist']
        items = case['items']
        texts = [it['text'] for it in items]
        models = []

        def F(kind, i, msg, **kw):
            return Failure(kind, f'expressions accepted one after the other in one process {texts!r}: #{i + 1} '
                           f'{items[i]["text"]!r} (port {items[i]["self"]}): {msg}', real=obs, **kw)

        for i, (it, o) in enumerate(zip(items, obs)):
            r = o['first']
            model = self._model_parse(driver, slot, it['self'], it['text'])
            models.append(model)
            if r['st'] == 'crash':
                return F('property', i, f'parse raises {r["cls"]}: {r["msg"]} (not an ExpressionParseError)', model=model)
            if r['st'] != model['st']:
                return F('property', i, f'code {"accepts" if r["st"] == "ok" else "rejects"} but the text is '
                         f'{"" if model["st"] == "ok" else "not "}derivable from the grammar ({self._conf_text(case)})',
                         model=model)
            if r['st'] != 'ok':
                continue
            if r['tree'] != model['tree']:
                return F('property', i, f'the accepted expression is {r["tree"]}, the grammar gives {model["tree"]}',
                         model=model)
            exp = it.get('expect')
            if exp is not None and r['tree'] != exp:
                return F('property', i, f'text derived from the grammar parses to {r["tree"]} instead of {exp}')
        # (a) the canonical text parses again to the same expression: same print, structure, dependencies, values as
        #     when the expression was accepted -- whatever else was accepted meanwhile
        for i, (it, o) in enumerate(zip(items, obs)):
            r = o['first']
            if r['st'] != 'ok':
                continue
            r2 = o['again']
            if r2['st'] != 'ok':
                return F('property', i, f'its canonical text {r["print"]!r} does not parse again: {r2}')
            for what in ('print', 'tree', 'deps', 'vals'):
                if r2[what] != r[what]:
                    return F('property', i, f'{what} of the canonical text {r["print"]!r} parsed again (after all the '
                             f'texts were accepted): {r2[what]}; the accepted expression had {r[what]}')
            for what in ('print', 'tree', 'deps', 'vals'):
                if o['now'][what] != r[what]:
                    return F('property', i, f'{what} of the accepted expression itself became {o["now"][what]} after the '
                             f'other texts were accepted (was {r[what]} when it was accepted)')
        # (b) the dependencies are those of the expression's own tree (model: Parse.deps, a function of the tree, the
        #     self id and the registry; theorems deps_depend_only_on_tree, reparse_same_deps_in_history)
        for i, (it, o) in enumerate(zip(items, obs)):
            r = o['first']
            if r['st'] != 'ok':
                continue
            model = models[i]
            if r['deps'] != model['deps']:
                # what a hub that has parsed nothing else (restart) gets for the stored text
                alone = self.pristine.observe({**case, 'items': [{**it, 'text': r['print'], 'expect': None}]})[0]
                a = alone['first']
                if a['st'] != 'ok' or a['deps'] != r['deps']:
                    return F('property', i, f'accepted with dependencies {r["deps"]}; its canonical text {r["print"]!r} '
                             f'parsed by a process that has parsed nothing else (restart) has '
                             f'{a.get("deps", a)}; its own tree gives {model["deps"]}', model=model)
                return F('correspondence', i, f'dependencies {r["deps"]}, the model gives {model["deps"]}', model=model)
            if r['print'] != model['print']:
                return F('correspondence', i, f'printed {r["print"]!r}, the model prints {model["print"]!r}', model=model)
        return None

    def _run_multi(self, case, driver):
        items = case['items']
        if any(0xD800 <= ord(c) <= 0xDFFF for it in items for c in it['text']):
            return None, {'tags': ['skipped-surrogate'], 'key': None}
        tags = ['origin:multi', f'multi-len:{len(items)}', f'hist:{case["hist"]}']
        fail = None
        if not self.state_suspect:
            obs = self._observe_multi(case)
            fail = self._judge_multi(case, obs, driver)
        if fail is not None or self.state_suspect:
            # does the sequence ALONE show it (a process that has parsed nothing else, as --replay)? state left in this
            # process by earlier cases does not count for this case
            self.state_suspect = True
            obs = self.pristine.observe(case)
            was = fail
            fail = self._judge_multi(case, obs, driver)
            if fail is None and was is not None:
                self.unreproduced += 1
                tags.append('not-reproduced-in-a-fresh-process')
        trees = [o['first']['tree'] for o in obs if o['first']['st'] == 'ok']
        tags.append(f'multi-accepted:{len(trees)}')
        timed = [{n for n in self._fn_names(t, []) if self.own_deps.get(n)} for t in trees]
        shared = any(timed[i] & timed[j] for i in range(len(timed)) for j in range(i))
        if shared:
            tags.append('multi:shares-a-time-function')
        return fail, {'tags': tags, 'key': 'multi|' + repr([(it['self'], it['text']) for it in items]) if shared else None,
                      'observed': None}

    def _gen_multi(self, rng, slot, base):
        """2-6 accepted expressions for several ports; most of them call the same function with own dependencies (or
        another one of those), the earlier ones with port references among the arguments."""
        reg = [e for e in self.regs[slot] if e['enabled'] and e['canon'] == e['name']]
        timed = [e for e in reg if e['deps']]
        focus = rng.choice(timed) if timed else None
        items = []
        for _ in range(rng.choice([2, 2, 3, 3, 4, 5, 6])):
            r = rng.random()
            if focus is None or r < 0.2:
                t = self._tree(rng, slot, rng.choice([1, 2, 2, 3]), [False] * 5 + [True])
            else:
                f = focus if r < 0.75 else rng.choice(timed)
                lo = f['min'] or 0
                hi = f['max'] if f['max'] is not None else lo + rng.choice([0, 1, 2])
                args = []
                for i in range(rng.randint(lo, max(lo, hi))):
                    k = f['kinds'][i] if i < len(f['kinds']) else self.DEFAULT_KIND
                    if k[1] and rng.random() < 0.6:
                        a = ['V', self._ident(rng)]
                        if k[5] and rng.random() < 0.4:
                            g = rng.choice([e for e in reg if (e['min'] or 0) <= 2 and (e['max'] is None or e['max'] >= 2)
                                            and not e['kinds'] and not e['deps']] or [None])
                            if g is not None:
                                a = ['C', g['name'], [a, ['L', self._literal(rng)]]]
                    else:
                        a = self._tree(rng, slot, rng.choice([0, 0, 1]), k)
                    args.append(a)
                t = ['C', f['name'], args]
                if rng.random() < 0.3:
                    outer = self._tree(rng, slot, rng.choice([1, 2]), [False] * 5 + [True])
                    spots = []

                    def walk(x):
                        if x[0] == 'C':
                            g = next(e for e in self.regs[slot] if e['name'] == x[1])
                            for i, a in enumerate(x[2]):
                                k = g['kinds'][i] if i < len(g['kinds']) else self.DEFAULT_KIND
                                if k[5]:
                                    spots.append((x, i))
                                walk(a)
                    walk(outer)
                    if spots:
                        x, i = rng.choice(spots)
                        x[2][i] = t
                        t = outer
            canonical = rng.random() < 0.5
            text = self._render(rng, t, canonical)
            if not canonical:
                text = self._ws(rng) + text + self._ws(rng)
            items.append({'self': rng.choice(['me', 'p1', 'a', 'x.y-z', 'p2', 'p3']), 'role': rng.randint(1, 4),
                          'text': text, 'expect': t})
        return {'kind': 'multi', 'hist': slot, 'off': base['off'], 'items': items, 'origin': 'multi'}

    # ------------------------------------------------------------------------------------------ running
    def _tables(self, driver):
        tags = ['tables']
        rep = driver.ask('spaces')
        model = [int(x) for x in rep[3:].split(',')]
        real = [cp for cp in range(0x110000) if not 0xD800 <= cp <= 0xDFFF and chr(cp).isspace()]
        if model != real:
            diff = sorted(set(model) ^ set(real))[:10]
            return Failure('correspondence', f'str.isspace table differs at code points {diff}', real=real[:40],
                           model=model[:40], where='Parse.isSpace <-> str.isspace'), {'tags': tags, 'key': None}
        # exhaustive short literals
        alpha = '01+-._eEinfatyINF٣'
        todo = ['']
        texts = []
        for _ in range(3):
            todo = [p + c for p in todo for c in alpha]
            texts += todo
        f = self._lit_compare(driver, texts)
        diag = self._enabled_diagnostics()
        if diag and f is None:
            f = Failure('correspondence', 'ENABLED of the live function classes vs. the documented enabling conditions: ' +
                        '; '.join(diag[:6]), real=diag[:20], where='Registry.enabled <-> Function.ENABLED as read by '
                        'Function.parse')
        tags.append('enabled-attrs:' + ('odd' if diag else 'ok'))
        # hypothesis RegCanonical of theorem stored_text_reparses on the live registry (informational: a registry that
        # breaks it is judged by the fixpoint oracle on the real code, not here)
        for slot in (0, 1):
            byname = {e['name']: e for e in self.regs[slot]}
            ok = all((not e['enabled']) or (e['canon'] in byname and byname[e['canon']]['enabled'] and
                                            byname[e['canon']]['canon'] == e['canon'] and
                                            all(byname[e['canon']][k] == e[k] for k in ('min', 'max', 'kinds')))
                     for e in self.regs[slot])
            tags.append(f'registry-canonical-{slot}:{"yes" if ok else "no"}')
        return f, {'tags': tags + [f'lit-exhaustive-{len(texts)}'], 'key': None, 'observed': len(texts)}

    def _lit_compare(self, driver, texts):
        for t in texts:
            if not t or t != t.strip():
                continue
            kw = t in ('true', 'false', 'unavailable')
            try:
                int(t)
                i = True
            except ValueError:
                i = False
            try:
                float(t)
                fl = True
            except ValueError:
                fl = False
            rep = driver.ask('lit ' + enc(t))
            real = 'ok ' + ''.join('1' if b else '0' for b in (kw, i, fl))
            if rep != real:
                return Failure('correspondence', f'literal {t!r}: python (keyword,int,float)={real[3:]} model={rep[3:]}',
                               real=real, model=rep, where='Parse.pyInt/pyFloat <-> int()/float()')
        return None

    def run_case(self, case, driver):
        """A failure counts only if the case shows it when run alone from a fresh process (what --replay does): the
        expression classes of this long-lived worker may carry state left by earlier cases. On the unchanged tree nothing
        fails, so no fresh process is ever started. 'multi' cases do their own confirmation (observations only)."""
        fail, info = self._run_case(case, driver)
        kind = case.get('kind', 'text')
        if fail is None or kind not in ('text', 'seq'):
            return fail, info
        if kind == 'seq':
            if self.state_suspect:
                return None, {'tags': ['dropped:process-state-carried-over'], 'key': None}
            return fail, info
        # does a process that has parsed nothing else see this text the same way?
        import json
        o = self.pristine.observe({'kind': 'multi', 'hist': case['hist'], 'off': case.get('off', 'hs'), 'items': [
            {'self': case['self'], 'text': case['text'], 'role': case['role']}]})[0]['first']
        here = json.loads(json.dumps(info.get('observed'), default=str))
        if o == here:
            return fail, info
        self.state_suspect = True
        self.unreproduced += 1
        return None, {'tags': ['not-reproduced-in-a-fresh-process'], 'key': None}

    def _run_case(self, case, driver):
        self._init_driver(driver)
        kind = case.get('kind', 'text')
        if kind == 'multi':
            return self._run_multi(case, driver)
        if kind == 'tables':
            return self._tables(driver)
        if kind == 'litbatch':
            import random
            rng = random.Random(case['seed'])
            texts = []
            for _ in range(case['n']):
                r = rng.random()
                if r < 0.5:
                    texts.append(''.join(rng.choice(LIT_ALPHABET + '٣٠') for _ in range(rng.randint(1, 9))))
                else:
                    b = rng.choice(LITERALS + BAD_LITERALS)
                    if b and rng.random() < 0.6:
                        i = rng.randrange(len(b) + 1)
                        b = b[:i] + rng.choice(LIT_ALPHABET + '٣ _') + b[i + rng.choice([0, 1]):]
                    texts.append(b)
            return self._lit_compare(driver, texts), {'tags': ['litbatch'], 'key': None}

        if kind == 'seq':
            self._configure(case['hist'], case.get('off', 'hs'))
            self._ensure_ports()
            fail, tags = self.loop.run_until_complete(self._port_seq(case, driver))
            tags += ['origin:seq', f'hist:{case["hist"]}' + ('' if case['hist'] else '/' + case.get('off', 'hs'))]
            return fail, {'tags': tags, 'key': 'seq|' + repr(case['steps']), 'observed': None}

        text, self_id, role, slot = case['text'], case['self'], case['role'], case['hist']
        if any(0xD800 <= ord(c) <= 0xDFFF for c in text):
            return None, {'tags': ['skipped-surrogate'], 'key': None}
        self._configure(slot, case.get('off', 'hs'))
        real, e1 = self._real_parse(self_id, text, role)
        model = self._model_parse(driver, slot, self_id, text)
        tags = ['origin:' + case.get('origin', '?').split('+')[0]]
        fail = None
        origin = case.get('origin', '')

        # ---- oracle (a): grammar-generated texts are accepted with the generated tree
        exp = case.get('expect')
        if exp is not None:
            if real['st'] != 'ok':
                fail = Failure('property', f'text derived from the grammar is rejected: {text!r} -> {real}', real=real)
            elif real['tree'] != exp:
                fail = Failure('property', f'text derived from the grammar parses to another tree: {text!r}: '
                               f'{real["tree"]} instead of {exp}', real=real)
            elif set(real['deps']) != self._expected_deps(exp, slot, self_id):
                fail = Failure('property', f'dependencies of {text!r}: {real["deps"]} instead of '
                               f'{sorted(self._expected_deps(exp, slot, self_id))}', real=real)
        # ---- oracle (a'): a call of a function that is not available on this hub is an unknown function
        if fail is None and case.get('disabled') and not slot:
            if real['st'] == 'ok':
                fail = Failure('property', f'{text!r} calls {case["disabled"]}, which is not available on this hub '
                               f'({self._conf_text(case)}), and is ACCEPTED as {real["print"]!r} instead of being refused '
                               f'with unknown-function', real=real)
            elif real['st'] == 'err' and (real['reason'], real['tok']) != ('unknown-function', case['disabled']):
                fail = Failure('property', f'{text!r} calls {case["disabled"]}, which is not available on this hub '
                               f'({self._conf_text(case)}): refused with {real["reason"]}/{real["tok"]!r} instead of '
                               f'unknown-function/{case["disabled"]!r}', real=real)
        # ---- oracle (b): printing is a parse fixpoint
        if fail is None and real['st'] == 'ok':
            r2, _ = self._real_parse(self_id, real['print'], role)
            if r2['st'] != 'ok':
                fail = Failure('property', f'stored text {real["print"]!r} of accepted {text!r} does not parse again: {r2}',
                               real=[real, r2])
            else:
                for what in ('print', 'tree', 'deps', 'vals'):
                    if r2[what] != real[what]:
                        fail = Failure('property', f'{what} changes when the stored text {real["print"]!r} of {text!r} '
                                       f'is parsed again: {real[what]} -> {r2[what]}', real=[real, r2])
                        break
        if fail is None and real['st'] == 'crash':
            fail = Failure('property', f'parse({text!r}) raises {real["cls"]}: {real["msg"]} (not an ExpressionParseError)',
                           real=real, model=model)
        # ---- (c) grammar decision (model, proved sound+complete for Derives) vs code
        if fail is None:
            if real['st'] != model['st']:
                fail = Failure('property', f'{text!r}: code {"accepts" if real["st"] == "ok" else "rejects"} but the '
                               f'text is {"" if model["st"] == "ok" else "not "}derivable from the grammar '
                               f'(hub: {self._conf_text(case)}; code: {real}; model: {model})', real=real, model=model)
            elif real['st'] == 'ok':
                if real['tree'] != model['tree']:
                    fail = Failure('property', f'{text!r}: the accepted expression is {real["tree"]}, the grammar '
                                   f'gives {model["tree"]}', real=real, model=model)
                else:
                    for what in ('print', 'deps'):
                        if real[what] != model[what]:
                            fail = Failure('correspondence', f'{text!r}: {what} of the accepted expression is '
                                           f'{real[what]}, the model gives {model[what]}', real=real, model=model)
                            break
            elif real['reason'] != model['reason']:
                fail = Failure('correspondence', f'{text!r}: reason {real["reason"]} (model: {model["reason"]})',
                               real=real, model=model)
            else:
                same = (real.get('pos') == (model['pos'] if 'pos' in self._fields(real['reason']) else None) and
                        (real.get('tok') == (model['tok'] if 'token' in self._fields(real['reason']) else None)) and
                        (real.get('num') == (model['num'] if 'num' in self._fields(real['reason']) else None)))
                if not same:
                    tags.append('detail-differs')
                    fail = Failure('correspondence', f'{text!r}: reason {real["reason"]} agrees but pos/token/num differ: '
                                   f'code {real.get("pos")}/{real.get("tok")!r}/{real.get("num")} model '
                                   f'{model["pos"]}/{model["tok"]!r}/{model["num"]}', real=real, model=model)
        # ---- port level
        if fail is None and case.get('port') and self_id in ('me', 'p1', 'a', 'x.y-z'):
            self._ensure_ports()
            pr = self.loop.run_until_complete(self._port_roundtrip(self_id, text))
            tags.append('port:' + pr['st'])
            # ROLE_VALUE parse + check_loops: a self reference alone is not a loop (level 1)
            rv, _ = self._real_parse(self_id, text, self.cx.ROLE_VALUE)
            if not text:
                pass
            elif pr['st'] == 'ok':
                if rv['st'] != 'ok':
                    fail = Failure('property', f'port accepted expression {text!r} that parse() rejects: {rv}', real=[pr, rv])
                elif pr['canon'] != rv['print']:
                    fail = Failure('property', f'expression of {text!r} reported after re-enable is {pr["canon"]!r}, '
                                   f'str(parse) is {rv["print"]!r}', real=[pr, rv])
                else:
                    # whatever text the port reports / saves (as typed or canonical) parses to the same expression
                    for what in ('stored', 'again', 'saved'):
                        r3, _ = self._real_parse(self_id, pr[what], self.cx.ROLE_VALUE) if isinstance(pr[what], str) \
                            else ({'st': 'none'}, None)
                        if r3['st'] != 'ok' or any(r3[k] != rv[k] for k in ('print', 'tree', 'deps', 'vals')):
                            fail = Failure('property', f'text {pr[what]!r} reported by the port ({what}) for accepted '
                                           f'{text!r} does not parse to the same expression: {r3}', real=[pr, rv, r3])
                            break
            else:
                if rv['st'] == 'ok':
                    if pr['reason'] != 'circular-dependency':
                        fail = Failure('property', f'port rejected {text!r} ({pr}) that parse() accepts', real=[pr, rv])
                    else:
                        tags.append('port:circular')
                elif rv['st'] == 'err' and pr['reason'] != rv['reason']:
                    fail = Failure('property', f'port reports {pr["reason"]} for {text!r}, parse() {rv["reason"]}',
                                   real=[pr, rv])
        # ---- tags
        if real['st'] == 'ok':
            tags.append('accepted')
            d = self._depth(real['tree'])
            tags.append(f'depth:{min(d, 6)}')
            if real['print'] != text:
                tags.append('layout-noncanonical')
        elif real['st'] == 'err':
            tags.append('reject:' + str(real['reason']))
        if any(c in UNI_WS for c in text):
            tags.append('unicode-space')
        if any(ord(c) > 127 and c.isdecimal() for c in text):
            tags.append('unicode-digit')
        tags.append('hist:' + str(slot) + ('' if slot else '/' + case.get('off', 'hs')))
        key = None
        if '(' in text or real['st'] != 'ok':
            key = text + '|' + (real.get('print') or real.get('reason') or real['st'])
        return fail, {'tags': tags, 'key': key, 'observed': real}

    @staticmethod
    def _conf_text(case):
        if case['hist']:
            return 'history on'
        return {'hs': 'core.history_support off', 'drv': 'persistence driver without samples support',
                'both': 'no samples support and core.history_support off'}[case.get('off', 'hs')]

    @staticmethod
    def _fields(reason):
        return {
            'unexpected-character': ('pos', 'token'), 'unknown-function': ('pos', 'token'),
            'invalid-number-of-arguments': ('pos', 'token'), 'invalid-argument-kind': ('pos', 'token', 'num'),
            'unbalanced-parentheses': ('pos',),
        }.get(reason, ())

    def _depth(self, t):
        if t[0] != 'C':
            return 0
        return 1 + max([self._depth(a) for a in t[2]] or [0])

    def known_match(self, finding, case, failure):
        return False


PROP = C03
