"""C12 — the master's mirror of a slave's ports equals the slave's state after sync.

Same harness as C13 (harness/simslave_c12.py, harness/scenario_c12.py): the real `qtoggleserver.slaves` package on an
in-process hub in virtual time against a simulated slave. The generated histories are remote histories (value
changes, attribute updates, port additions/removals, device updates), master API calls made while the slave is online,
outages of every length (shorter/longer than the master's offline detection and than the slave's session expiry) and
request latencies; both sync modes. Edits made while the slave is offline belong to C13 and are not generated here.
"""
import json
import random

from harness import scenario_c12 as sc
from harness.core import Prop
from harness.props.c13 import ATTR_EDITS, base_ports


class C12(Prop):
    ID = 'C12'
    N_QUICK = 200
    N_THOROUGH = 1200
    CASE_TIMEOUT = 120
    RULE = ('scripted histories of one master/slave pair in virtual time: 1-4 ports (number/boolean, read-only, '
            'disabled, custom attribute), listen or poll mode, latency 1-200 ms, bursts of remote value changes '
            '(several within one 50 ms tick), remote attribute updates (incl. enabled toggles and repeated updates of '
            'the same port so that the slave session supersedes queued port-updates), port additions/removals and '
            're-additions, device updates, master-side value writes and attribute edits while online, 0-2 outages '
            '(5 s to 300 s, refused or timing out) with remote changes during the outage; checks in between. About half '
            'of the histories also have ports with optional attributes (min/max/integer/step) and/or a slave that is '
            'itself a hub (history_*, device_expression, device_history_*, sometimes device_device_*), with remote '
            'reconfigurations that drop such an attribute from a port, re-add or change it (events, polls, full '
            'fetches) and edits of device_* attributes through the master; the oracle compares the exposed attribute '
            'SET (names through the master\'s device_ renaming, values) with the slave\'s current one. '
            'Non-trivial = at least one mirror check passed while online after >= 3 remote changes; distinct = '
            'distinct (mode, event kinds delivered, outage kinds, final slave state).')
    CORRESPONDENCE = ('Slave.handleEvents/fetchPorts/pollPorts/valueResp/editValue/drain <-> slaves.devices.Slave.'
                      '_listen_loop/_handle_*/fetch_and_update_ports/_poll_once, slaves.ports.SlavePort.'
                      'push_remote_value/read_value/write_value/get_attr; Names.presentName <-> the names under which '
                      'SlavePort.get_attr / to_json show the slave\'s attributes (MASTER_ATTRS read from the live module)')
    TRUSTED = ['the simulated slave (harness/simslave_c12.py) as a correct qToggle device (session queue discipline of '
               'core/sessions.py: dedup, drop-oldest, expiry); tornado HTTP client replaced at fetch_impl; virtual time',
               'the order in which messages reach the master is taken from the run (trace), not predicted']
    ASSUMPTIONS = ['no event-queue overflow on the slave between two listens (queue size 1024)',
                   'one request latency per scenario (a value-write answer overtaken by a later event of the same port '
                   'is outside the generated space)', 'no master restart; no rename of the slave']

    def setup(self):
        from harness.simslave_c12 import Hub
        self.hub = Hub(quiet=True)

    def corpus(self):
        p1 = [{'id': 'p1', 'type': 'number', 'value': 5, 'writable': True, 'enabled': True}]
        p2 = p1 + [{'id': 'p2', 'type': 'boolean', 'value': False, 'writable': True, 'enabled': True, 'custom': 'green'}]
        out = []
        for mode in ('listen', 'poll'):
            out.append({'mode': mode, 'latency': 0.01, 'fail': 'refused', 'poll': 1, 'ports': p2, 'steps': [
                ['rvalue', 'p1', 6], ['rvalue', 'p1', 7], ['rvalue', 'p1', 6], ['rvalue', 'p2', True],
                ['rattr', 'p1', 'display_name', 'a'], ['rattr', 'p1', 'display_name', 'b'], ['wait', 0.2],
                ['radd', 'x1', 'number', 3], ['rvalue', 'x1', 4], ['rremove', 'p2'], ['rdev', 'display_name', 'D'],
                ['check'], ['mvalue', 'p1', 11], ['mattr', 'p1', 'unit', 'V'], ['mattr', 'p1', 'expression', 'ADD(1, 2)'],
                ['wait', 1], ['check'], ['rattr', 'p1', 'enabled', False], ['wait', 1], ['check'],
                ['rattr', 'p1', 'enabled', True], ['rvalue', 'p1', 12], ['wait', 1], ['check']]})
            # outage shorter than the slave's session expiry: queued events are replayed, then a full fetch
            out.append({'mode': mode, 'latency': 0.03, 'fail': 'refused', 'poll': 2, 'ports': p2, 'steps': [
                ['check'], ['down'], ['await_offline'], ['rvalue', 'p1', 8], ['rattr', 'p2', 'display_name', 'z'],
                ['radd', 'x1', 'number', 3], ['rremove', 'p1'], ['radd', 'p1', 'number', 9], ['wait', 10], ['up'],
                ['await_online'], ['check'], ['rvalue', 'p1', 10], ['wait', 1], ['check']]})
            # outage longer than the session expiry, timing-out requests
            out.append({'mode': mode, 'latency': 0.1, 'fail': 'timeout', 'poll': 5, 'ports': p2, 'steps': [
                ['down'], ['rvalue', 'p1', 8], ['await_offline'], ['rremove', 'p2'], ['rvalue', 'p1', 9],
                ['wait', 200], ['up'], ['await_online'], ['check']]})
            # short glitch: the master never declares the slave offline
            out.append({'mode': mode, 'latency': 0.01, 'fail': 'refused', 'poll': 1, 'ports': p1, 'steps': [
                ['down'], ['rvalue', 'p1', 8], ['wait', 3], ['up'], ['wait', 12], ['check'], ['rvalue', 'p1', 9],
                ['wait', 12], ['check']]})
        # a value change and the removal of the port in ONE listen batch whose delivery coincides with a hub tick: the
        # tick runs while port.remove() awaits, so the value is still reported before the port disappears
        out.append({'mode': 'listen', 'latency': 0.1, 'fail': 'refused', 'poll': 5, 'ports': [
            {'id': 'p1', 'type': 'number', 'value': 42, 'writable': True, 'enabled': True, 'custom': 'green'}],
            'steps': [['rvalue', 'p1', 7], ['rremove', 'p1'], ['check']]})
        # a consumer's write answered while the listen handler is suspended in the value fetch of a just-added port:
        # the (older) port-update of the same batch is handled after the write's answer
        out.append({'mode': 'listen', 'latency': 0.1, 'fail': 'refused', 'poll': 1, 'ports': [
            {'id': 'p1', 'type': 'number', 'value': 50, 'writable': True, 'enabled': True, 'custom': 'green'}],
            'steps': [['radd', 'x1', 'number', 2], ['rattr', 'p1', 'display_name', 'r1'], ['mvalue', 'p1', 17],
                      ['wait', 2], ['check']]})
        # slow actuator: a write answered 202 Accepted and never applied must not show up on the master
        out.append({'mode': 'listen', 'latency': 0.01, 'fail': 'refused', 'poll': 1, 'ports': [
            {'id': 'p1', 'type': 'number', 'value': 5, 'writable': True, 'enabled': True, 'slow': 'never'},
            {'id': 'p2', 'type': 'number', 'value': 6, 'writable': True, 'enabled': True, 'slow': 'later'}],
            'steps': [['mvalue', 'p1', 9], ['mvalue', 'p2', 8], ['wait', 3], ['check']]})
        # pushed events (neither listening nor polling): an event overtakes the answer of the follow-up GET /ports
        out.append({'mode': 'push', 'latency': 0.2, 'push_latency': 0.01, 'fail': 'refused', 'poll': 1, 'ports': p2,
                    'steps': [['rvalue', 'p1', 21], ['when', 'ports', 0.05, [['rvalue', 'p1', 22],
                                                                            ['rattr', 'p1', 'display_name', 'boiler']]],
                              ['wait', 4], ['check'], ['radd', 'x1', 'number', 3], ['rremove', 'p2'], ['check']]})
        # reconnect race: a port added after the listening session exists but before the full fetch is answered comes
        # with the fetch AND as a (then inapplicable) port-add event, followed by a value change in the same response
        out.append({'mode': 'listen', 'latency': 0.1, 'fail': 'refused', 'poll': 1, 'ports': p1, 'steps': [
            ['down'], ['await_offline'], ['wait', 120], ['up'], ['when', 'device', 0.0, [['radd', 'x1', 'number', 3]]],
            ['when', 'ports', 0.01, [['rvalue', 'p1', 8]]], ['await_online'], ['wait', 2], ['check']]})
        # polling: a write through the master accepted with 204, then the device falls back to its previous value
        # before any poll has seen the written one (the GET /ports answer never changes)
        out.append({'mode': 'poll', 'latency': 0.01, 'fail': 'refused', 'poll': 5, 'ports': p1, 'steps': [
            ['wait', 11], ['mvalue', 'p1', 9], ['rvalue', 'p1', 5], ['wait', 12], ['check']]})
        # a push refused by the device on reconnect, then the port changes on the device
        for mode in ('listen', 'poll'):
            out.append({'mode': mode, 'latency': 0.01, 'fail': 'refused', 'poll': 1, 'ports': p1, 'steps': [
                ['down'], ['await_offline'], ['mvalue', 'p1', 9], ['rfail', 'p1'], ['wait', 3], ['up'], ['await_online'],
                ['rvalue', 'p1', 12], ['rattr', 'p1', 'display_name', 'n'], ['wait', 2], ['check']]})
        # KNOWN FINDING C12-poll-unacknowledged-push-stale-mirror (polling only): the push of a value written while
        # offline is applied by the device but its answer is lost / is refused while the device's value happens to be
        # the written one: the master keeps showing the value read before the outage (5), the slave has 9
        out.append({'mode': 'poll', 'latency': 0.01, 'fail': 'refused', 'poll': 1, 'ports': p1, 'steps': [
            ['check'], ['down'], ['await_offline'], ['mvalue', 'p1', 9], ['rdrop', 'p1'], ['wait', 3], ['up'],
            ['await_online'], ['wait', 5], ['check'], ['wait', 30], ['check']]})
        out.append({'mode': 'poll', 'latency': 0.01, 'fail': 'refused', 'poll': 1, 'ports': p1, 'steps': [
            ['check'], ['down'], ['await_offline'], ['mvalue', 'p1', 9], ['rvalue', 'p1', 9], ['rfail', 'p1'],
            ['wait', 3], ['up'], ['await_online'], ['wait', 5], ['check'], ['wait', 30], ['check']]})
        # the same two in listening mode: the reconnect refresh queues the fetched value, the mirror converges
        for kind in ([['rdrop', 'p1']], [['rvalue', 'p1', 9], ['rfail', 'p1']]):
            out.append({'mode': 'listen', 'latency': 0.01, 'fail': 'refused', 'poll': 1, 'ports': p1, 'steps': [
                ['check'], ['down'], ['await_offline'], ['mvalue', 'p1', 9]] + kind + [['wait', 3], ['up'],
                ['await_online'], ['wait', 5], ['check']]})
        # the slave is itself a hub: its ports carry history_* / device_expression / device_history_* (the attributes of
        # ITS slaves' ports), which the master shows one `device_` deeper, next to the slave's own expression / history_*
        hubp = [{'id': 'p1', 'type': 'number', 'value': 5, 'writable': True, 'enabled': True, 'extra': {
            'history_interval': 60, 'history_retention': 0, 'device_expression': 'ADD(1, 2)',
            'device_history_interval': 3600, 'device_history_retention': 86400, 'device_device_expression': 'SUB(9, 1)'}}]
        # optional attributes that disappear from the slave's port and come back
        optp = [{'id': 'p1', 'type': 'number', 'value': 5, 'writable': True, 'enabled': True, 'extra': {
            'min': 0, 'max': 120, 'step': 5, 'integer': True}}]
        for mode in ('listen', 'poll', 'push'):
            out.append({'mode': mode, 'latency': 0.01, 'fail': 'refused', 'poll': 1, 'ports': hubp, 'steps': [
                ['check'], ['rattr', 'p1', 'device_expression', 'MUL($x, 2)'], ['rattr', 'p1', 'expression', 'ADD(3, 4)'],
                ['wait', 1], ['check'], ['rattrdel', 'p1', 'device_device_expression'], ['wait', 1], ['check'],
                ['rattrdel', 'p1', 'device_history_interval'], ['rattrset', 'p1', 'device_device_expression', 'OR($a, $b)'],
                ['wait', 1], ['check']] + ([] if mode == 'push' else [
                    ['mattr', 'p1', 'device_expression', 'NOT($y)'], ['wait', 1], ['check'],
                    ['mattr', 'p1', 'device_history_retention', 7200], ['wait', 1], ['check']])})
            out.append({'mode': mode, 'latency': 0.01, 'fail': 'refused', 'poll': 1, 'ports': optp, 'steps': [
                ['check'], ['rattrdel', 'p1', 'max'], ['rattrdel', 'p1', 'step'], ['wait', 1], ['check'],
                ['rvalue', 'p1', 500], ['wait', 1], ['check'], ['rattrset', 'p1', 'max', 1000], ['rattrdel', 'p1', 'min'],
                ['wait', 1], ['check'], ['rattrset', 'p1', 'step', 1], ['wait', 1], ['check']]})
        # KNOWN FINDING C12-device-attr-hidden-below-gap: a hub without history support has device_history_* for its
        # slaves' ports but no history_* of its own: the master shows neither
        out.append({'mode': 'listen', 'latency': 0.01, 'fail': 'refused', 'poll': 2, 'ports': [{'id': 'p1', 'type': 'number', 'value': 11, 'writable': True, 'enabled': True, 'extra': {'device_history_interval': 3600, 'device_history_retention': 7200, 'device_expression': 'MUL($x, 2)'}}], 'steps': [['check']]})
        # the attribute disappears during an outage: the full fetch of the reconnect must drop it
        for mode in ('listen', 'poll'):
            out.append({'mode': mode, 'latency': 0.03, 'fail': 'refused', 'poll': 2, 'ports': optp + hubp[:0], 'steps': [
                ['check'], ['down'], ['await_offline'], ['rattrdel', 'p1', 'max'], ['rattrdel', 'p1', 'integer'],
                ['wait', 200], ['up'], ['await_online'], ['check']]})
        return out

    def gen(self, rng, tier):
        return decorate(self.gen_base(rng, tier))

    def gen_base(self, rng, tier):
        mode = rng.choice(['listen', 'listen', 'listen', 'poll', 'poll', 'push'])
        ports = base_ports(rng, rng.choice([1, 2, 2, 3, 4]))
        for p in ports:
            if p['writable'] and p['enabled'] and rng.random() < 0.15:
                p['slow'] = rng.choice(['never', 'later'])
        case = {'mode': mode, 'latency': rng.choice([0.001, 0.01, 0.01, 0.03, 0.1, 0.2]),
                'fail': rng.choice(['refused', 'refused', 'timeout']), 'poll': rng.choice([1, 2, 5]), 'ports': ports}
        if mode == 'push':
            case['push_latency'] = rng.choice([case['latency'], case['latency'] / 4, 0.001])
        steps = []
        ids = [p['id'] for p in ports]
        types = {p['id']: p['type'] for p in ports}

        def rnd_value(pid):
            return rng.randint(2, 60) if types.get(pid, 'number') == 'number' else rng.choice([True, False])

        def remote(k, burst=False):
            for _ in range(k):
                r = rng.random()
                pid = rng.choice(ids)
                if r < 0.5:
                    steps.append(['rvalue', pid, rnd_value(pid)])
                elif r < 0.75:
                    n, vals = rng.choice(ATTR_EDITS[:3] + [('display_name', ['r1', 'r2']), ('enabled', [True, False])])
                    steps.append(['rattr', pid, n, rng.choice(vals)])
                elif r < 0.83:
                    steps.append(['rdev', rng.choice(['display_name', 'timezone']), rng.choice(['R', 'S', 'UTC'])])
                elif r < 0.92:
                    nid = rng.choice([f'x{rng.randint(1, 3)}'] + ids)
                    types.setdefault(nid, 'number')
                    steps.append(['radd', nid, types[nid], rnd_value(nid)])
                    if nid not in ids:
                        ids.append(nid)
                else:
                    steps.append(['rremove', rng.choice(ids)])
                if not burst and rng.random() < 0.6:
                    steps.append(['wait', rng.choice([0.01, 0.04, 0.06, 0.3, 1, 3])])

        def master(k):
            for _ in range(k):
                pid = rng.choice(ids)
                if rng.random() < 0.5:
                    steps.append(['mvalue', pid, rnd_value(pid)])
                else:
                    n, vals = rng.choice(ATTR_EDITS)
                    steps.append(['mattr', pid, n, rng.choice(vals)])
                steps.append(['wait', rng.choice([0.3, 1, 2])])

        if mode == 'listen' and rng.random() < 0.3:
            # pure event stream (every port enabled, no outage, no master write, no port re-creation): the regime in
            # which the oracle compares the master's value-change series with the slave's value log
            for p in ports:
                p['enabled'] = True
            for _ in range(rng.randint(1, 3)):
                for _ in range(rng.randint(2, 10)):
                    pid = rng.choice(ids)
                    r = rng.random()
                    if r < 0.75:
                        steps.append(['rvalue', pid, rnd_value(pid)])
                    elif r < 0.9:
                        steps.append(['rattr', pid, rng.choice(['display_name', 'unit']), rng.choice(['a', 'b', 'c'])])
                    else:
                        steps.append(['rdev', 'display_name', rng.choice(['R', 'S'])])
                    if rng.random() < 0.4:
                        steps.append(['wait', rng.choice([0.01, 0.04, 0.06, 0.3])])
                steps.append(['wait', rng.choice([1, 2])])
                steps.append(['check'])
            case['steps'] = steps
            return case
        if mode == 'push':
            # the device pushes its events; changes are also timed into the master's follow-up sync (GET /device, /ports)
            for _ in range(rng.randint(1, 3)):
                remote(rng.randint(1, 4), burst=rng.random() < 0.5)
                if rng.random() < 0.6:
                    k = len(steps)
                    remote(rng.randint(1, 3), burst=True)
                    nested = steps[k:]
                    del steps[k:]
                    steps.append(['when', rng.choice(['ports', 'ports', 'device']),
                                  rng.choice([0.0, 0.01, 0.05, 0.15]), nested])
                steps.append(['wait', rng.choice([0.5, 2, 4])])
                steps.append(['check'])
            case['steps'] = steps
            return case
        for _ in range(rng.randint(1, 4)):
            kind = rng.random()
            if kind < 0.12 and mode == 'poll':
                # write through the master, then the device falls back to the value it had before
                wr = [p for p in ports if p['writable'] and p['enabled'] and p['type'] == 'number' and not p.get('slow')]
                if wr:
                    p = rng.choice(wr)
                    a = rng.randint(2, 60)
                    steps += [['rvalue', p['id'], a], ['wait', 2 * case['poll'] + 1], ['mvalue', p['id'], a + 1],
                              ['rvalue', p['id'], a], ['wait', 2 * case['poll'] + 1]]
            elif kind < 0.24 and mode != 'poll' or kind < 0.18:
                # outage, then changes timed into the reconnect window (after the session exists / after the snapshot)
                steps.append(['down'])
                steps.append(['await_offline'])
                remote(rng.randint(0, 2))
                steps.append(['wait', rng.choice([1, 30, 120])])
                steps.append(['up'])
                for hook in rng.choice([['device', 'ports'], ['device', 'ports'], ['listen', 'ports'], ['ports']]):
                    k = len(steps)
                    remote(rng.randint(1, 3), burst=True)
                    nested = steps[k:]
                    del steps[k:]
                    steps.append(['when', hook, rng.choice([0.0, 0.01, 0.05]), nested])
                steps.append(['await_online'])
            elif kind < 0.30:
                # an edit made while offline whose push the device refuses, then the port changes on the device
                wr = [p for p in ports if p['writable'] and p['enabled']]
                if wr:
                    p = rng.choice(wr)
                    steps += [['down'], ['await_offline']]
                    steps.append(rng.choice([['mvalue', p['id'], rnd_value(p['id'])],
                                             ['mattr', p['id'], 'display_name', 'off']]))
                    steps.append(rng.choice([['rfail', p['id']], ['rattr', p['id'], 'enabled', False]]))
                    steps += [['wait', rng.choice([3, 40])], ['up'], ['await_online']]
                    steps += [['rattr', p['id'], 'enabled', True], ['rvalue', p['id'], rnd_value(p['id'])],
                              ['rattr', p['id'], 'display_name', 'on']]
            elif kind < 0.45:
                remote(rng.randint(1, 8), burst=rng.random() < 0.4)
            elif kind < 0.6:
                master(rng.randint(1, 2))
            elif kind < 0.85:
                steps.append(['down'])
                if rng.random() < 0.5:
                    remote(rng.randint(1, 3))
                if rng.random() < 0.75:
                    steps.append(['await_offline'])
                    remote(rng.randint(0, 5))
                    steps.append(['wait', rng.choice([1, 10, 40, 120, 300])])
                else:
                    steps.append(['wait', rng.choice([1, 3, 8])])       # glitch
                    remote(rng.randint(0, 2))
                steps.append(['up'])
                steps.append(['await_online'])
            else:
                remote(rng.randint(2, 6), burst=True)
            steps.append(['wait', rng.choice([1, 2, 12])])
            steps.append(['check'])
        case['steps'] = steps
        return case

    def shrink_candidates(self, case):
        steps = case['steps']
        keep = ('down', 'await_offline', 'up', 'await_online')
        for i, st in enumerate(steps):
            if st[0] in keep:
                continue
            yield dict(case, steps=steps[:i] + steps[i + 1:])
        used = {s[1] for s in steps if len(s) > 1 and isinstance(s[1], str)}
        for i, p in enumerate(case['ports']):
            if p['id'] not in used and len(case['ports']) > 1:
                yield dict(case, ports=case['ports'][:i] + case['ports'][i + 1:])
        if case.get('latency') != 0.01:
            yield dict(case, latency=0.01)

    def run_case(self, case, driver):
        real = self.hub.run(sc.run_real(self.hub, case))
        if real.add_result is None or real.add_result[0] != 'ok':
            raise RuntimeError(f'could not add the simulated slave: {real.add_result}')
        fail, tags = sc.oracle_c12(case, real)
        mfail, mtags = sc.run_model(case, real, driver)
        tags |= mtags
        tags.add('mode-' + case['mode'])
        if fail is None:
            fail = mfail
        nrem = sum(1 for s in sc.flat_steps(case) if s[0].startswith('r'))
        key = None
        if 'mirror-checked' in tags and nrem >= 3:
            final = real.checks[-1]['slave'] if real.checks else {}
            key = repr((case['mode'], sorted(t for t in tags if t.startswith('ev-') or t in ('went-offline',)),
                        sorted((k, v.get('value')) for k, v in final.items())))
        observed = {'final_master': {k: v.get('value') for k, v in (real.checks[-1]['master'] if real.checks else {}).items()},
                    'final_slave': {k: v.get('value') for k, v in (real.checks[-1]['slave'] if real.checks else {}).items()}}
        return fail, {'tags': sorted(tags), 'key': key, 'observed': observed}

    def known_match(self, finding, case, failure):
        # C12-poll-unacknowledged-push-stale-mirror: poll mode, port P written through the master during an outage, and
        # before the 'up' the push of P is made to lose its answer (rdrop P) or is refused (rfail P) while the device's
        # own value of P equals the written value; the master then shows a stale VALUE for exactly that port
        if finding.get('id') == 'C12-device-attr-hidden-below-gap':
            # the oracle itself establishes, on the slave's observed port, that the level below the hidden device_*
            # attribute is missing (scenario_c12.chain_gap); any other attribute disagreement has where='attrs'
            return failure.kind == 'property' and failure.where == 'attrs-gap'
        if finding.get('id') != 'C12-poll-unacknowledged-push-stale-mirror' or failure.kind != 'property':
            return False
        if case.get('mode') != 'poll' or failure.where != 'value':
            return False
        dev = {p['id']: p['value'] for p in case['ports']}      # the device's own values along the script
        down, written, hit = False, {}, set()
        for st in sc.flat_steps(case):
            if st[0] == 'rvalue':
                dev[st[1]] = st[2]
            elif st[0] in ('rremove',):
                dev.pop(st[1], None)
            elif st[0] == 'radd':
                dev.setdefault(st[1], st[3])
            elif st[0] == 'down':
                down, written, faults = True, {}, {}
            elif st[0] == 'mvalue' and down:
                written[st[1]] = st[2]
            elif st[0] in ('rdrop', 'rfail') and down:
                faults[st[1]] = st[0]
            elif st[0] == 'up' and down:
                for pid, v in written.items():
                    if faults.get(pid) == 'rdrop' or (faults.get(pid) == 'rfail' and pid in dev and dev[pid] == v
                                                      and type(dev[pid]) is type(v)):
                        hit.add(pid)
                down = False
        return any(f'port {pid}: master value' in failure.detail for pid in hit)


# ---------------------------------------------------------------------------------------------------------------------
# Attribute SETS: optional attributes that come and go, slaves that are themselves hubs
# ---------------------------------------------------------------------------------------------------------------------

OPTIONAL_NUMBER = {'min': [0, -5], 'max': [1000, 120], 'integer': [True], 'step': [1]}
HUB_OWN = {'history_interval': [0, 60], 'history_retention': [0, 3600]}
HUB_DEVICE = {'device_history_interval': [-1, 300, 3600], 'device_history_retention': [86400, 7200]}
HUB_EXPR = {'device_expression': ['ADD(1, 2)', 'MUL($x, 2)', 'NOT($y)']}
HUB_DEEP = {'device_device_expression': ['SUB(9, 1)', 'OR($a, $b)'], 'device_device_history_interval': [5, 7]}


def port_extras(r, typ, writable, hub):
    """Further attributes of a slave port: (name -> candidate values, names that may be dropped and re-added). A hub's
    port has its own expression (writable) / history_* and, for what ITS slave's port has, device_expression /
    device_history_*; chains are complete (device_device_x only next to device_x), as on a real chain of hubs.
    hub == 'nohist': the hub runs without history support — no history_* of its own, but device_history_* for its
    slaves' (known finding C12-device-history-hidden-without-own-history)."""
    cand = {}
    if typ == 'number' and r.random() < 0.7:
        for n in r.sample(sorted(OPTIONAL_NUMBER), r.randint(1, 4)):
            cand[n] = OPTIONAL_NUMBER[n]
    fixed = set()
    if hub:
        if hub != 'nohist':
            cand.update(HUB_OWN)
            fixed |= set(HUB_OWN)
        lvl1 = {k: v for k, v in HUB_DEVICE.items() if r.random() < 0.8}
        if writable and r.random() < 0.85:
            lvl1.update(HUB_EXPR)
        cand.update(lvl1)
        if r.random() < 0.4:      # two levels: the slave's slave is a hub, too
            for k, v in HUB_DEEP.items():
                if k[7:] in lvl1:
                    cand[k] = v
                    fixed.add(k[7:])
    return cand, {n for n in cand if n not in fixed}


def decorate(case):
    """Adds, to about half of the generated histories, ports with optional attributes (min/max/integer/step) and slaves
    that are themselves hubs (history_*, device_expression, device_history_*, sometimes device_device_*), plus remote
    reconfigurations that DROP such an attribute from a port, re-add it or change it, and edits of the device_*
    attributes through the master. Every choice derives from the generated case (itself drawn from `rng`), so the rest
    of the history is what it was."""
    r = random.Random(json.dumps(case, sort_keys=True))
    if r.random() < 0.5:
        return case
    hub = 'nohist' if r.random() < 0.03 else r.choice([None, None, 'hub', 'hub', 'hub'])
    cands, drops = {}, {}

    def extras(pid, typ, writable):
        c, d = port_extras(r, typ, writable, hub)
        if not c:
            return None
        cands[pid], drops[pid] = c, sorted(d)
        return {n: r.choice(vs) for n, vs in c.items() if n not in d or r.random() < 0.85}
    for p in case['ports']:
        e = extras(p['id'], p['type'], p.get('writable', True))
        if e:
            p['extra'] = e

    offline = [False]

    def walk(steps, nested):
        out = []
        for st in steps:
            if st[0] == 'down':
                offline[0] = True
            elif st[0] == 'await_online':
                offline[0] = False
            if st[0] == 'when':
                st = st[:3] + [walk(st[3], True)]
            elif st[0] == 'radd' and len(st) == 4 and r.random() < 0.5:
                e = extras(st[1], st[2], True) if st[1] not in cands else None
                if e:
                    st = st + [e]
            out.append(st)
            if cands and st[0] in ('rvalue', 'rattr', 'wait', 'check', 'down', 'await_offline', 'radd', 'mvalue') \
                    and r.random() < 0.3:
                for _ in range(r.choice([1, 1, 2, 3])):
                    pid = r.choice(sorted(cands))
                    n = r.choice(sorted(cands[pid]))
                    k = r.random()
                    if k < 0.45 and drops[pid]:
                        out.append(['rattrdel', pid, r.choice(drops[pid])])
                    elif k < 0.85 or nested or offline[0] or case.get('mode') == 'push' or not n.startswith('device_'):
                        # (a webhook-driven slave is never online for the master: an edit through the master would
                        # become a pending edit, which is C13's subject and generated there)
                        out.append(['rattrset', pid, n, r.choice(cands[pid][n])])
                    else:
                        out += [['mattr', pid, n, r.choice(cands[pid][n])], ['wait', 1]]
                    if not nested and r.random() < 0.5:
                        out.append(['wait', r.choice([0.01, 0.06, 0.3, 1])])
        return out
    case['steps'] = walk(case['steps'], False)
    if case['steps'] and case['steps'][-1][0] != 'check':
        case['steps'] += [['wait', 2], ['check']]
    return case


PROP = C12
