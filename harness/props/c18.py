"""C18 — history queries return exactly the requested samples, in the requested order.

Real side: the API functions `get_port_history` / `delete_port_history` (fake request handler, real query-argument
parsing), the public functions of `qtoggleserver.core.history` (get_samples_slice, get_samples_by_timestamp, save_sample,
remove_samples), value changes through a real polling pass (`core.main.update()` -> ValueChange -> HistoryEventHandler),
single iterations of the real `sampling_task` / `janitor_task` (stepping loop of harness/vloop_c18.py),
all on the repository's real persistence drivers (Redis on fakeredis, Mongo on mongomock, in-memory JSON driver with
samples switched on) behind the public persistence API, with a virtual wall clock.
Model side: QtVerif.Model.History via Driver/C18.lean (repaired by-timestamp result construction).
Oracle: the property statement recomputed in Python from the list of recorded samples (no cache, no model): range =
filter / oldest first / first `limit`; by-timestamp = one entry per requested timestamp in request order, newest sample at
or before it or null; typed like the port; deletion removes exactly the half-open range; one sample per value change of
an on-change port.  Ties among equal timestamps are compared as multisets.
Port RE-CREATION (`recreate`): a port is removed (DELETE /ports/{id} for a virtual port, BasePort.remove() otherwise) and a
port with the same id and another type / integer flag is created (POST /ports or core.ports.load); "typed like the port"
is judged with the type of the port that exists when the query is made; the samples stored under the id go with the
removal the janitor performs at its next iteration (model: recreatePort / schedule / janitorPending).
"""
import asyncio
import collections

from harness import vclock
from harness.core import Failure, Prop

T0 = 1_700_000_000_000           # ms; "now" of most cases starts here
HOUR = 3_600_000
COLLECTION = 'value_history'
API_DEFAULT_LIMIT = 1000         # qToggle API reference: default and maximum of `limit`
API_MAX_LIMIT = 10000
PORTS = {'pb': (1, 'b'), 'pi': (2, 'i'), 'pn': (3, 'n')}     # name -> (model port id, type tag)
UNKNOWN_PORT = 'zz'
UNKNOWN_PID = 9


class FakeRequest:
    def __init__(self, method, query):
        self.headers = {}
        self.method = method
        self.path = '/api/ports/x/history'
        self.query_arguments = {k: [v.encode()] for k, v in query.items()}
        self.body = b''


class FakeHandler:
    def __init__(self, level, method, query):
        self.access_level = level
        self.username = 'u'
        self.request = FakeRequest(method, query)

    def decode_argument(self, v, name=None):
        return v.decode()


def clock_of(ms):
    """A float `t` with int(t * 1000) == ms and (t > L) == (ms > 1000 L) for every integer L."""
    t = ms / 1000.0 if ms % 1000 == 0 else (ms + 0.5) / 1000.0
    assert int(t * 1000) == ms, ms
    return t


def tok_of_value(v):
    if v is None:
        return 'n'
    if type(v) is bool:
        return 'b1' if v else 'b0'
    if type(v) is int:
        return f'i{v}'
    if type(v) is float:
        q = v * 4
        if q == int(q):
            return f'f{int(q)}'
        return f'f?{v!r}'
    return f'?{type(v).__name__}'


def value_of_tok(tok):
    if tok == 'n':
        return None
    if tok[0] == 'b':
        return tok == 'b1'
    if tok[0] == 'i':
        return int(tok[1:])
    return int(tok[1:]) / 4.0


def stored_of_tok(tok):
    """float(value) in quarters"""
    if tok[0] == 'b':
        return 4 if tok == 'b1' else 0
    if tok[0] == 'i':
        return 4 * int(tok[1:])
    return int(tok[1:])


def adapt(tag, q):
    """the property's "typed like the port" for a stored q/4"""
    if tag == 'b':
        return 'b1' if q != 0 else 'b0'
    if tag == 'i':
        return f'i{int(q / 4.0)}'
    return f'f{q}'


def coerce_tok(tok, tag):
    """a polled value as a value of a port of type `tag` (identity when it already is one)"""
    if tok == 'n':
        return 'n'
    return adapt(tag, stored_of_tok(tok))


PTYPE = {'b': {'type': 'boolean'}, 'i': {'type': 'number', 'integer': True}, 'n': {'type': 'number'}}


def hexq(s):
    return '-' if s is None else 'x' + s.encode().hex()


def optw(x):
    return '-' if x is None else str(x)


class C18(Prop):
    ID = 'C18'
    N_QUICK = 6000
    N_THOROUGH = 60000
    RULE = ('a sample set (seeded through persist.save_sample over a small grid of timestamps so that boundary-equal '
            'times, ties and other ports\' samples occur) followed by a random sequence of range / by-timestamp / delete '
            'API requests (duplicate, unsorted, cached and uncached timestamps; from/to/limit present, absent, empty, '
            'malformed), direct core.history calls (descending slices, open bounds, multi-port removal), value changes '
            'through real polling passes, explicit save_sample calls and single iterations of the real sampler and '
            'retention janitor, by-timestamp requests combined with limit/from/to and with 1001-1500 timestamps, and '
            'OVERLAPPING operations (one by-timestamp query or removal suspended at its persistence call - before or after '
            'the call executes on the store - while 1-3 other operations run to completion, then resumed and the same '
            'question asked again), port RE-CREATION (a port - instrumented or virtual - is removed and a port with the same '
            'id and another type / integer flag is created through DELETE /ports/{id} + POST /ports or BasePort.remove + '
            'core.ports.load, after the old port has been asked for its history; values of the new type are recorded and '
            'queried before and after the janitor iteration that performs the removal scheduled by the port removal), '
            'with a monotone virtual clock that moves by '
            'ms..hours; three persistence drivers; a case is non-trivial when at least one query returned a non-empty '
            'answer and the sequence contained a cache hit, a delete, a recording, a limit cut or a duplicate/unsorted '
            'timestamp list; distinct = distinct list of observed answers')
    CORRESPONDENCE = ('History.getPortHistory / deletePortHistory / hSlice / hByTs / hSave / hRemove / poll+onChange <-> '
                      'core.api.funcs.ports.get_port_history / delete_port_history, core.history.get_samples_slice / '
                      'get_samples_by_timestamp / save_sample / remove_samples, core.main.update + HistoryEventHandler, '
                      'samplerTick / janitorTick <-> one iteration of core.history.sampling_task / janitor_task, '
                      'sStep getBegin/getFetch/getEnd/delBegin/delExec <-> the two halves of get_samples_by_timestamp / '
                      'remove_samples around their awaited persistence call (gate in harness/persist_c18.py), '
                      'recreatePort / schedule / janitorPending <-> core.api.funcs.ports.delete_port (BasePort.remove -> '
                      'history.remove_samples(background=True)) + post_ports (core.ports.load) and the second half of a '
                      'janitor_task iteration, '
                      'persist.base sample functions on the Redis / Mongo / JSON drivers')
    TRUSTED = ['fakeredis / mongomock stand in for the servers; the delegating persist driver of harness/persist_c18.py',
               'virtual time.time(); instrumented Port subclass as value source',
               'sample values are multiples of 1/4 (exact in binary64); query strings are ASCII']
    ASSUMPTIONS = ['monotone wall clock (the property\'s quantifier); samples are recorded with the current time',
                   'overlap: at most one operation is suspended at a time, at its single persistence await; the answer of '
                   'the suspended query must be right, entry by entry, for the store at some instant between its start and '
                   'its end, a suspended removal takes effect at some instant before it returns, every later answer must '
                   'be right for the then-current store',
                   'order among samples of one port with equal timestamps is unspecified (compared as multisets)',
                   'an empty `from` argument counts as absent (the code\'s choice); default limit 1000, maximum 10000']

    # ------------------------------------------------------------------------------------------ set-up
    def setup(self):
        import logging
        logging.getLogger('qtoggleserver').setLevel(logging.CRITICAL)
        vclock.install()
        vclock.set(clock_of(T0))
        from qtoggleserver.conf import settings
        from qtoggleserver.core import expressions  # noqa: F401  (import order: avoids the circular import)
        from qtoggleserver import persist
        from qtoggleserver.core import api as core_api
        from qtoggleserver.core import history as core_history
        from qtoggleserver.core import main as core_main
        from qtoggleserver.core import ports as core_ports
        from qtoggleserver.core import vports as core_vports
        from qtoggleserver.core.api.funcs import ports as ports_funcs
        from qtoggleserver.system import date as system_date
        from harness import persist_c18
        self.core_vports = core_vports
        self.persist, self.core_api, self.core_history = persist, core_api, core_history
        self.core_main, self.core_ports, self.ports_funcs = core_main, core_ports, ports_funcs
        self.backends = persist_c18

        class SrcPort(core_ports.Port):
            TYPE = 'number'

            def __init__(self, port_id, typ='number', integer=False):
                super().__init__(port_id)
                self._type = typ
                self._integer = integer
                self.src_value = None

            async def read_value(self):
                return self.src_value

        self.SrcPort = SrcPort
        settings.persist.driver = 'harness.persist_c18.SwitchDriver'
        settings.core.history_support = True
        from harness import vloop_c18
        self.loop = vloop_c18.new_loop()
        settings.core.history_janitor_interval = 1     # one janitor iteration per `tick`, like the sampler

        async def boot():
            await persist_c18.fresh_backend('json')
            await persist.init()
            assert core_history.is_enabled()
            await core_history.init()          # registers the HistoryEventHandler, starts sampler + janitor
            for _ in range(3):                 # both tasks now sleep on the stepping loop until a `tick`
                await asyncio.sleep(0)
        self.loop.run_until_complete(boot())
        self.min_age = getattr(core_history, '_CACHE_TIMESTAMP_MIN_AGE', None)
        self.min_age_observed = self.min_age is not None
        if self.min_age is None:
            self.min_age = HOUR                # the property's "older than one hour"
        self.old_limit = int(system_date.OLD_TIME_LIMIT) * 1000
        self.view_level = core_api.ACCESS_LEVEL_VIEWONLY
        self.admin_level = core_api.ACCESS_LEVEL_ADMIN

    def teardown(self):
        try:
            self.loop.run_until_complete(self.core_history.cleanup())
        except BaseException:
            pass
        self.loop.close()

    # ------------------------------------------------------------------------------------------ cases
    def corpus(self):
        t1, t2, t3 = T0 - 5 * HOUR, T0 - 4 * HOUR, T0 - 3 * HOUR
        return [
            # D4 witness: [now, t, t, t'] with t cached -> one entry per requested timestamp, in request order
            {'driver': 'redis', 'base': T0, 'intervals': {'pb': 0, 'pi': 0, 'pn': 0},
             'seeds': [['pi', t1, 11], ['pi', t2, 11], ['pi', t3, 22]],
             'ops': [['get', 10, 'pi', 100, {'timestamps': f'{t2 + 5}'}],
                     ['get', 10, 'pi', 100, {'timestamps': f'{T0},{t2 + 5},{t2 + 5},{t1},0'}],
                     ['get', 10, 'pi', 100, {'timestamps': f'{T0},{t2 + 5},{t2 + 5},{t1},0'}]]},
            # duplicates alone (no cache involved): recent timestamps
            {'driver': 'json', 'base': T0, 'intervals': {'pb': 0, 'pi': 0, 'pn': 0},
             'seeds': [['pn', T0 - 10, 5]],
             'ops': [['get', 10, 'pn', 0, {'timestamps': f'{T0},{T0}'}]]},
            # cache + delete + re-query; other port with the same timestamps
            {'driver': 'mongo', 'base': T0, 'intervals': {'pb': 0, 'pi': 0, 'pn': 0},
             'seeds': [['pn', t1, 5], ['pn', t2, 6], ['pb', t1, 4], ['pb', t2, 0]],
             'ops': [['get', 10, 'pn', 0, {'timestamps': f'{t2},{t1},{t1 - 1}'}],
                     ['get', 10, 'pb', 0, {'timestamps': f'{t2},{t1},{t1 - 1}'}],
                     ['del', 30, 'pn', 1, {'from': f'{t2}', 'to': f'{t2 + 1}'}],
                     ['get', 10, 'pn', 2, {'timestamps': f'{t2},{t1},{t1 - 1}'}],
                     ['get', 10, 'pb', 2, {'timestamps': f'{t2},{t1},{t1 - 1}'}]]},
            # range boundaries, limit, default `to` = now, empty from
            {'driver': 'redis', 'base': T0, 'intervals': {'pb': 0, 'pi': 0, 'pn': 0},
             'seeds': [['pn', T0 - 30, 1], ['pn', T0 - 20, 2], ['pn', T0 - 10, 3], ['pn', T0, 4], ['pn', T0 + 5, 5],
                       ['pi', T0 - 20, 9]],
             'ops': [['get', 10, 'pn', 0, {'from': f'{T0 - 20}', 'to': f'{T0 - 10}'}],
                     ['get', 10, 'pn', 0, {'from': f'{T0 - 30}', 'limit': '2'}],
                     ['get', 10, 'pn', 0, {'from': ''}],
                     ['get', 10, 'pn', 5, {'from': '0'}],
                     ['get', 10, 'pn', 6, {'from': '0'}],
                     ['del', 30, 'pn', 6, {'from': f'{T0 - 20}', 'to': f'{T0}'}],
                     ['get', 10, 'pn', 7, {'from': '0', 'to': f'{T0 + 100}'}]]},
            # on-change recording, null skipped, interval switch, descending slice
            {'driver': 'redis', 'base': T0, 'intervals': {'pb': -1, 'pi': -1, 'pn': 5},
             'seeds': [],
             'ops': [['poll', 'pb', 0, 'b1'], ['poll', 'pb', 0, 'b1'], ['poll', 'pb', 1, 'b0'], ['poll', 'pi', 1, 'i7'],
                     ['poll', 'pn', 2, 'f10'], ['poll', 'pi', 3, 'n'], ['poll', 'pi', 4, 'i7'],
                     ['interval', 'pi', 0], ['poll', 'pi', 5, 'i8'], ['hsave', 'pi', 6],
                     ['get', 10, 'pb', 7, {'from': '0'}], ['get', 10, 'pi', 7, {'from': '0'}],
                     ['hslice', 'pi', None, None, 2, True], ['get', 10, 'pi', 7, {'timestamps': f'{T0 + 4},{T0 + 3}'}]]},
            # no real date/time: nothing is recorded before OLD_TIME_LIMIT
            {'driver': 'json', 'base': 1546304400000 - 1000, 'intervals': {'pb': -1, 'pi': 0, 'pn': 0},
             'seeds': [],
             'ops': [['poll', 'pb', 0, 'b1'], ['poll', 'pb', 1000, 'b0'], ['poll', 'pb', 1001, 'b1'],
                     ['get', 10, 'pb', 2000, {'from': '0'}]]},
            # query at `now`, record at the same `now`, query again (min-age rule)
            {'driver': 'redis', 'base': T0, 'intervals': {'pb': 0, 'pi': 0, 'pn': -1},
             'seeds': [['pn', T0 - 2 * HOUR, 3]],
             'ops': [['get', 10, 'pn', 0, {'timestamps': f'{T0},{T0 - HOUR},{T0 - HOUR - 1}'}],
                     ['poll', 'pn', 0, 'f9'],
                     ['get', 10, 'pn', 0, {'timestamps': f'{T0},{T0 - HOUR},{T0 - HOUR - 1}'}],
                     ['get', 10, 'pn', 2 * HOUR, {'timestamps': f'{T0},{T0 - HOUR},{T0 - HOUR - 1}'}]]},
            # periodic sampling (due / not due / null value) and the retention janitor (boundary of the expiry)
            {'driver': 'redis', 'base': T0, 'intervals': {'pb': 2, 'pi': 0, 'pn': -1},
             'retention': {'pb': 0, 'pi': 3600, 'pn': 0},
             'seeds': [['pi', T0 - HOUR - 1, 8], ['pi', T0 - HOUR, 12], ['pi', T0 - HOUR + 1000, 16], ['pn', T0 - 2 * HOUR, 4]],
             'ops': [['get', 10, 'pi', 0, {'timestamps': f'{T0 - HOUR - 1},{T0 - HOUR + 5}'}],
                     ['tick', 0], ['poll', 'pb', 0, 'b1'], ['tick', 1000], ['tick', 1999], ['tick', 2000],
                     ['get', 10, 'pi', 2000, {'timestamps': f'{T0 - HOUR - 1},{T0 - HOUR + 5}'}],
                     ['tick', 3999], ['interval', 'pn', 1], ['poll', 'pn', 4000, 'f6'], ['tick', 4000],
                     ['get', 10, 'pb', 5000, {'from': '0'}], ['get', 10, 'pi', 5000, {'from': '0'}],
                     ['get', 10, 'pn', 5000, {'from': '0'}]]},
            # on-change port switched to periodic: the change stamped the port, so the first period starts there
            {'driver': 'json', 'base': T0, 'intervals': {'pb': -1, 'pi': 0, 'pn': 0}, 'retention': {},
             'seeds': [],
             'ops': [['poll', 'pb', 0, 'b1'], ['interval', 'pb', 2], ['tick', 1999], ['tick', 2000], ['tick', 3999],
                     ['tick', 4000], ['get', 10, 'pb', 5000, {'from': '0'}]]},
            # more samples than the default limit: the first 1000, oldest first
            {'driver': 'json', 'base': T0, 'intervals': {'pb': 0, 'pi': 0, 'pn': 0}, 'retention': {},
             'seeds': [['pi', T0 - 5000 + 2 * k, 4 * (k % 7)] for k in range(1003)],
             'ops': [['get', 10, 'pi', 0, {'from': '0'}], ['get', 10, 'pi', 0, {'from': '0', 'limit': '1002'}],
                     ['hslice', 'pi', None, None, 2, True]]},
            # a by-timestamp request is one entry per requested timestamp whatever `limit` / `from` / `to` say
            {'driver': 'json', 'base': T0, 'intervals': {'pb': 0, 'pi': 0, 'pn': 0}, 'retention': {},
             'seeds': [['pn', t1, 4], ['pn', t2, 12], ['pn', t3, 24]],
             'ops': [['get', 10, 'pn', 0, {'timestamps': f'{t3},{t1},{t1},{t2 + 1}', 'limit': '2'}],
                     ['get', 10, 'pn', 0, {'timestamps': f'{t3},{t1},{t1},{t2 + 1}', 'limit': '1', 'from': f'{t3}',
                                           'to': f'{t1}'}],
                     ['get', 10, 'pn', 0, {'timestamps': ','.join(str(t1 - 600 + (7 * k) % 1300) for k in range(1203))}]]},
            # a removal that completes while a by-timestamp query waits for the persistence layer (reply held back /
            # request held back): the resumed query must not leave the removed sample in the cache
            {'driver': 'json', 'base': T0, 'intervals': {'pb': 0, 'pi': 0, 'pn': 0}, 'retention': {},
             'seeds': [['pn', t1, 168]],
             'ops': [['begin', 'a', ['get', 30, 'pn', 0, {'timestamps': f'{t2}'}]],
                     ['del', 30, 'pn', 0, {'from': '0', 'to': f'{T0}'}], ['end'],
                     ['get', 30, 'pn', 1, {'timestamps': f'{t2}'}], ['get', 30, 'pn', 1, {'from': '0'}]]},
            {'driver': 'redis', 'base': T0, 'intervals': {'pb': 0, 'pi': -1, 'pn': 0}, 'retention': {'pi': 3 * 3600},
             'seeds': [['pi', t1, 8], ['pi', t3 + 5, 12]],
             'ops': [['hbyts', 'pi', 0, [t2]],
                     ['begin', 'b', ['hbyts', 'pi', 0, [t2, t3, t1 - 1, T0]]],
                     ['hremove', ['pi', 'pb'], None, t2, 0], ['poll', 'pi', 1, 'i7'], ['end'],
                     ['hbyts', 'pi', 2, [t2, t3, t1 - 1, T0]],
                     ['begin', 'a', ['hbyts', 'pi', 2, [t3 + 6, t3 + 7]]], ['tick', 1000], ['end'],
                     ['hbyts', 'pi', 1000, [t3 + 6, t3 + 7]]]},
            # a by-timestamp query that runs while a removal waits for the persistence layer: the removal must invalidate
            # the cache again once it has executed (fixed d4ebdd9, C18-remove-overlap-stale-cache)
            {'driver': 'json', 'base': T0, 'intervals': {'pb': 0, 'pi': 0, 'pn': 0}, 'retention': {},
             'seeds': [['pn', t1, 168]],
             'ops': [['begin', 'b', ['del', 30, 'pn', 0, {'from': '0', 'to': f'{T0}'}]],
                     ['get', 30, 'pn', 0, {'timestamps': f'{t2}'}], ['end'],
                     ['get', 30, 'pn', 1, {'timestamps': f'{t2}'}], ['get', 30, 'pn', 1, {'from': '0'}]]},
            # a port removed and created again under the same id with another type: typed like the port that exists now
            # (virtual ports through DELETE /ports/{id} + POST /ports; seed C18-r3-3), the samples stored under the id
            # go at the next janitor iteration
            {'driver': 'json', 'base': T0, 'intervals': {'pb': -1, 'pi': 0, 'pn': 0}, 'retention': {}, 'virtual': True,
             'seeds': [['pb', t1, 4]],
             'ops': [['poll', 'pb', 0, 'b1'], ['poll', 'pb', 60_000, 'b0'],
                     ['get', 10, 'pb', 60_001, {'timestamps': f'{t2},{T0 + 5}'}], ['get', 10, 'pb', 60_001, {'from': '0'}],
                     ['recreate', 'pb', 'n', 'api', 70_000, -1, 0],
                     ['get', 10, 'pb', 70_000, {'timestamps': f'{t2},{T0 + 5}'}],
                     ['poll', 'pb', 130_000, 'f86'], ['poll', 'pb', 190_000, 'f0'], ['poll', 'pb', 250_000, 'f13'],
                     ['get', 10, 'pb', 310_000, {'from': f'{T0 + 70_000}'}],
                     ['get', 10, 'pb', 310_000, {'timestamps': f'{T0 + 130_005},{T0 + 190_005},{T0 + 250_005},{t2}'}],
                     ['tick', 320_000], ['poll', 'pb', 330_000, 'f-6'],
                     ['recreate', 'pb', 'i', 'api', 340_000, -1, 0], ['poll', 'pb', 350_000, 'i7'],
                     ['get', 10, 'pb', 360_000, {'from': '0'}],
                     ['get', 10, 'pb', 360_000, {'timestamps': f'{T0 + 330_000},{T0 + 350_000}'}]]},
            {'driver': 'redis', 'base': T0, 'intervals': {'pb': 0, 'pi': -1, 'pn': 2}, 'retention': {'pn': 3600},
             'seeds': [['pi', t1, 10], ['pi', t3, 8], ['pn', t3, 6]],
             'ops': [['hbyts', 'pi', 0, [t2, t3 + 1]], ['poll', 'pi', 1, 'i3'],
                     ['recreate', 'pi', 'b', 'core', 2, -1, 0], ['hbyts', 'pi', 2, [t2, t3 + 1, T0 + 1]],
                     ['poll', 'pi', 3, 'b1'], ['hslice', 'pi', None, None, None, True],
                     ['recreate', 'pn', 'i', 'api', 3, 2, 3600], ['poll', 'pn', 4, 'i5'], ['tick', 1000], ['tick', 3000],
                     ['get', 10, 'pn', 3000, {'from': '0'}], ['get', 10, 'pi', 3000, {'from': '0'}],
                     ['hbyts', 'pi', 3000, [t2, t3 + 1, T0 + 1]]]},
            # argument validation order / access levels
            {'driver': 'json', 'base': T0, 'intervals': {'pb': 0, 'pi': 0, 'pn': 0}, 'seeds': [['pn', 5, 1]],
             'ops': [['get', 0, 'pn', 0, {}], ['get', 10, 'zz', 0, {}], ['get', 10, 'pn', 0, {}],
                     ['get', 10, 'pn', 0, {'to': '5'}], ['get', 10, 'pn', 0, {'from': 'x', 'timestamps': '1'}],
                     ['get', 10, 'pn', 0, {'from': ' 1_0 ', 'to': '+7', 'limit': '10000'}],
                     ['get', 10, 'pn', 0, {'from': '-0', 'limit': '10001'}], ['get', 10, 'pn', 0, {'timestamps': '1,,2'}],
                     ['get', 10, 'pn', 0, {'timestamps': '3,-1'}], ['del', 20, 'pn', 0, {'from': '0', 'to': '9'}],
                     ['del', 30, 'pn', 0, {'from': '0'}], ['del', 30, 'pn', 0, {'from': '', 'to': '9'}],
                     ['del', 30, 'zz', 0, {'from': '0', 'to': '9'}], ['del', 30, 'pn', 0, {'from': '6', 'to': '5'}],
                     ['get', 10, 'pn', 0, {'from': '0'}]]},
        ]

    def _grid(self, rng, base):
        pts = {base - 5 * HOUR, base - self.min_age, base}
        for _ in range(rng.randint(2, 6)):
            pts.add(base - rng.choice([0, 1, 7, 1000, 60_000, HOUR, HOUR + 1, 2 * HOUR, 3 * HOUR, 4 * HOUR, 6 * HOUR])
                    - rng.choice([0, 0, 1, 5, 999]))
        pts.add(base + rng.choice([1, 1000, 60_000]))
        return sorted(p for p in pts if p >= 0)

    def _ts(self, rng, grid):
        t = rng.choice(grid) + rng.choice([0, 0, 0, 0, 1, -1])
        return max(t, 0)

    def _weird(self, rng, grid):
        t = self._ts(rng, grid)
        return rng.choice(['', ' ', 'x', '-1', '-0', f'+{t}', f' {t} ', f'{t}_', f'_{t}', f'1_{t % 1000}', f'{t}.0',
                           f'0x{t % 255:x}', '1e3', f'\t{t}\n', f'- {t}', f'00{t}', '1__0', f'{t},', 'None', '--1',
                           '0', '1', '10000', '10001', f'{t}', f'{t}\x0b', '\x1f7', '+', '-', '_', f'{t} 1'])

    VALUES = {'b': ['b0', 'b1', 'n'], 'i': ['i0', 'i1', 'i2', 'i-3', 'n', 'i7'], 'n': ['f0', 'f1', 'f6', 'f-10', 'n', 'f4']}

    def _scenario(self, rng, tier):
        """Targeted multi-step histories: the same by-timestamp request before and after a recording / a delete,
        series of value changes, the same timestamps asked for several ports."""
        base = T0
        names = list(PORTS)
        main = rng.choice(names)
        tag = PORTS[main][1]
        intervals = {n: rng.choice([-1, -1, -1, 0, 5]) for n in names}
        old = [base - k * HOUR - rng.choice([0, 1, 500]) for k in (2, 3, 4, 5)]
        seeds = [[rng.choice([main, main, rng.choice(names)]), rng.choice(old) + rng.choice([0, 0, -1, 1]),
                  rng.choice([0, 4, 8, -4, 5, 12])] for _ in range(rng.randint(0, 5))]
        now = rng.choice([0, 1, 1000])
        ops = []
        kind = rng.choice(['record', 'record', 'delete', 'changes', 'changes', 'cross-port', 'periodic', 'periodic',
                           'overlap', 'overlap', 'recreate', 'recreate'])
        retention = {n: 0 for n in names}
        virtual = False
        if kind == 'record':
            intervals[main] = rng.choice([-1, -1, -1, 5])
            fut = rng.choice([0, 0, 1, 1000, 60_000])
            tss = [base + now + fut, base + now, rng.choice(old), base + now - self.min_age - rng.choice([0, 1])]
            rng.shuffle(tss)
            tss = tss[:rng.randint(1, 4)]
            q = {'timestamps': ','.join(map(str, tss))}
            ops.append(['get', 10, main, now, q])
            for _ in range(rng.randint(1, 3)):
                now += rng.choice([0, 0, 1, fut])
                if rng.random() < 0.8:
                    ops.append(['poll', main, now, rng.choice(self.VALUES[tag])])
                else:
                    ops.append(['hsave', main, now])
                ops.append(['get', 10, main, now, q])
            now += rng.choice([1, 2 * HOUR, 2 * HOUR])
            ops.append(['get', 10, main, now, q])
            ops.append(['get', 10, main, now, q])
        elif kind == 'delete':
            tss = [rng.choice(old) + rng.choice([0, 0, 1, -1]) for _ in range(rng.randint(1, 4))]
            q = {'timestamps': ','.join(map(str, tss))}
            ops.append(['get', 10, main, now, q])
            ops.append(['get', 10, main, now, q])
            a = rng.choice(old) + rng.choice([0, 0, 1, -1])
            b = rng.choice(old + [base]) + rng.choice([0, 0, 1])
            if a > b:
                a, b = b, a
            if rng.random() < 0.7:
                ops.append(['del', 30, main, now, {'from': str(a), 'to': str(b)}])
            else:
                ops.append(['hremove', rng.sample(names, rng.choice([1, 2])), rng.choice([None, a]), rng.choice([None, b]), now])
            ops.append(['get', 10, main, now + 1, q])
            ops.append(['get', 10, main, now + 1, {'from': '0'}])
        elif kind == 'changes':
            intervals[main] = -1
            for _ in range(rng.randint(3, 9)):
                now += rng.choice([0, 1, 1, 1000, 60_000])
                ops.append(['poll', main, now, rng.choice(self.VALUES[tag])])
                if rng.random() < 0.15:
                    ops.append(['interval', main, rng.choice([-1, 0, 5])])
            ops.append(['get', 10, main, now + 1, {'from': '0'}])
            ops.append(['hslice', main, None, None, rng.choice([None, 1, 2]), True])
        elif kind == 'overlap':
            # a by-timestamp query and a removal / recording overlapping at the persistence call, then the same question
            tss = [rng.choice(old) + rng.choice([0, 0, 1, -1]) for _ in range(rng.randint(1, 3))]
            if rng.random() < 0.3:
                tss.append(base + now)
            get = (lambda n: ['get', 10, main, n, {'timestamps': ','.join(map(str, tss))}]) if rng.random() < 0.6 else \
                  (lambda n: ['hbyts', main, n, list(tss)])
            a = rng.choice(old) + rng.choice([0, 0, 1, -1])
            b = rng.choice(old + [base]) + rng.choice([0, 0, 1])
            if a > b:
                a, b = b, a
            rm = ['del', 30, main, now, {'from': str(a), 'to': str(b)}] if rng.random() < 0.6 else \
                 ['hremove', rng.sample(names, rng.choice([1, 2])), rng.choice([None, a]), rng.choice([None, b]), now]
            if rng.random() < 0.3:
                ops.append(get(now))                     # something is cached already
            if rng.random() < 0.7:
                intervals[main] = -1
                later = now + rng.choice([0, 0, 0, 1, HOUR + 1, 2 * HOUR])      # the clock may move on while it waits
                if later > now and rng.random() < 0.7:
                    tss.append(base + now + rng.choice([0, 1]))
                begin = ['begin', rng.choice(['a', 'b']), get(now)]
                inner = [rm] if rng.random() < 0.6 else [['poll', main, rng.choice([now, now, later]), rng.choice(self.VALUES[tag][:2])]]
                if rng.random() < 0.3:
                    inner.append(rng.choice([get(later), ['poll', main, later, rng.choice(self.VALUES[tag])], ['tick', later]]))
                if later > now:
                    inner.append(rng.choice([['tick', later], ['hslice', main, None, None, 1, True]]))
                now = later
                ops += [begin] + inner + [['end']]
            else:
                ops += [['begin', rng.choice(['a', 'b', 'b']), rm], get(now)]
                if rng.random() < 0.3:
                    ops.append(['poll', main, now, rng.choice(self.VALUES[tag])])
                ops.append(['end'])
            ops += [get(now + 1), get(now + 1), ['get', 10, main, now + 1, {'from': '0'}]]
        elif kind == 'recreate':
            # the port is asked for its history, removed, created again under the same id (mostly with another type),
            # records values of the new type, and is asked again - before and after the janitor has done the removal
            # scheduled by the port removal
            virtual = rng.random() < 0.5
            intervals[main] = rng.choice([-1, -1, -1, 1, 2])
            tss = [rng.choice(old) + rng.choice([0, 0, 1, -1]) for _ in range(rng.randint(1, 3))]
            byts = (lambda n: ['get', 10, main, n, {'timestamps': ','.join(map(str, tss))}]) if rng.random() < 0.7 else \
                   (lambda n: ['hbyts', main, n, list(tss)])
            rng_q = (lambda n: ['get', 10, main, n, {'from': '0', 'to': str(base + n + 1)}]) if rng.random() < 0.7 else \
                    (lambda n: ['hslice', main, None, None, None, rng.random() < 0.5])
            for _ in range(rng.randint(0, 2)):
                ops.append(['poll', main, now, rng.choice(self.VALUES[tag])])
                now += rng.choice([0, 1, 1000, 60_000])
            if rng.random() < 0.7:
                ops.append(byts(now))
            if rng.random() < 0.4:
                ops.append(rng_q(now))
            cur = tag
            for gen_no in range(rng.choice([1, 1, 1, 2, 3])):
                cur = rng.choice([t for t in 'bin' if t != cur]) if rng.random() < 0.85 else cur
                now += rng.choice([0, 1, 1000, 60_000])
                ops.append(['recreate', main, cur, rng.choice(['api', 'core']), now, rng.choice([-1, -1, -1, 1, 2, 0]),
                            rng.choice([0, 0, 0, 3600, 4 * 3600])])
                if rng.random() < 0.3:
                    ops.append(byts(now))
                for _ in range(rng.randint(1, 4)):
                    r = rng.random()
                    now += rng.choice([0, 1, 1, 1000, 60_000, HOUR + 1])
                    if r < 0.65:
                        ops.append(['poll', main, now, rng.choice([v for v in self.VALUES[cur] if v != 'n'] + ['n'])])
                        tss.append(base + now + rng.choice([0, 0, 5, -1]))
                    elif r < 0.8:
                        ops.append(['tick', now])
                    elif r < 0.9:
                        ops.append(['hsave', main, now])
                    else:
                        ops.append(rng.choice([['interval', main, rng.choice([-1, 1, 0])],
                                               ['del', 30, main, now, {'from': '0', 'to': str(rng.choice(old) + 1)}]]))
                    if rng.random() < 0.5:
                        ops.append(rng.choice([byts, rng_q])(now))
                if len(tss) > 6:
                    del tss[:len(tss) - 6]
            now += rng.choice([1, 1, 2 * HOUR])
            ops += [byts(now), byts(now), rng_q(now)]
        elif kind == 'periodic':
            base = rng.choice([T0, T0, T0 + 1, T0 + 999, 1546304400000 - 2000])
            intervals = {n: rng.choice([1, 1, 2, 3, 5, 0, -1]) for n in names}
            intervals[main] = rng.choice([1, 2, 3, 5])
            retention = {n: rng.choice([0, 0, 1, 2, 3, 3600, 2 * 3600, 5 * 3600]) for n in names}
            tss = [rng.choice(old) + rng.choice([0, 1, -1]) for _ in range(rng.randint(1, 3))]
            q = {'timestamps': ','.join(map(str, tss))}
            if rng.random() < 0.3:          # on-change first (stamps the port), then switched to periodic
                k = intervals[main]
                intervals[main] = -1
                ops.append(['poll', main, now, rng.choice([v for v in self.VALUES[PORTS[main][1]] if v != 'n'])])
                ops.append(['interval', main, k])
                now += rng.choice([0, 1, 999, k * 1000 - 1, k * 1000])
                ops.append(['tick', now])
            for _ in range(rng.randint(3, 10)):
                r = rng.random()
                if r < 0.55:
                    now += rng.choice([0, 1, 999, 1000, 1000, 1001, 2000, 3000, 5000, HOUR])
                    ops.append(['tick', now])
                elif r < 0.8:
                    p = main if rng.random() < 0.7 else rng.choice(names)
                    ops.append(['poll', p, now, rng.choice(self.VALUES[PORTS[p][1]])])
                elif r < 0.9:
                    ops.append(['get', 10, main, now, q])
                elif r < 0.95:
                    ops.append(['interval', main, rng.choice([1, 2, 5, 0, -1])])
                else:
                    ops.append(['retention', main, rng.choice([0, 1, 2, 3600, 3 * 3600])])
            ops.append(['get', 10, main, now, q])
            ops.append(['get', 10, main, now + 1, {'from': '0'}])
        else:
            tss = [rng.choice(old) + rng.choice([0, 1, -1]) for _ in range(rng.randint(1, 3))]
            q = {'timestamps': ','.join(map(str, tss))}
            for _ in range(rng.randint(3, 6)):
                ops.append(['get', 10, rng.choice(names), now, q])
                now += rng.choice([0, 1])
        case = {'driver': rng.choice(['redis', 'redis', 'mongo', 'json']), 'base': base, 'intervals': intervals,
                'retention': retention, 'seeds': seeds, 'ops': ops}
        if virtual:
            case['virtual'] = True
        return case

    def gen(self, rng, tier):
        if rng.random() < 0.2:
            return self._scenario(rng, tier)
        kind = rng.random()
        if kind < 0.04:
            base = 1546304400000 - rng.choice([0, 1, 1000, 2000])       # clock around OLD_TIME_LIMIT
        else:
            base = T0
        driver = rng.choice(['redis', 'redis', 'mongo', 'json'])
        grid = self._grid(rng, base)
        names = list(PORTS)
        main = rng.choice(names)
        intervals = {n: rng.choice([-1, -1, 0, 5]) for n in names}
        tie_values_differ = rng.random() < 0.12
        seeds = []
        by_key = {}
        big = tier == 'thorough' and rng.random() < 0.0005
        nseeds = rng.choice([0, 1, 2, 3, 4, 5, 6, 8, 12]) if not big else 1003
        for k in range(nseeds):
            p = main if rng.random() < 0.75 else rng.choice(names)
            ts = self._ts(rng, grid) if not big else base - 6 * HOUR + k * rng.choice([1, 2, 3])
            q = rng.choice([0, 1, 2, 4, 5, 8, -4, -3, -6, 10, 100, 4 * rng.randint(-5, 5)])
            if not tie_values_differ:
                q = by_key.setdefault((p, ts), q)
            seeds.append([p, ts, q])
        nops = rng.randint(2, 14 if tier == 'quick' else 24)
        now = rng.choice([0, 0, 1, 1000])
        ops = []
        recent_ts = []
        for _ in range(nops):
            now += rng.choice([0, 0, 0, 1, 1, 999, 1000, 60_000, HOUR, 2 * HOUR + 1])
            p = main if rng.random() < 0.8 else rng.choice(names + [UNKNOWN_PORT])
            r = rng.random()
            if r < 0.30:                                   # by-timestamp query
                n = rng.choice([1, 2, 3, 3, 4, 5, 6])
                tss = []
                for _ in range(n):
                    c = rng.random()
                    if c < 0.35 and recent_ts:
                        tss.append(rng.choice(recent_ts))               # asked before (cache)
                    elif c < 0.45 and tss:
                        tss.append(rng.choice(tss))                     # duplicate
                    elif c < 0.55:
                        tss.append(base + now - rng.choice([0, 1, self.min_age, self.min_age + 1, self.min_age - 1]))
                    else:
                        tss.append(self._ts(rng, grid))
                tss = [max(t, 0) for t in tss]
                recent_ts = (recent_ts + tss)[-8:]
                if rng.random() < (0.004 if tier == 'quick' else 0.002):     # more timestamps than any limit
                    tss = [max(self._ts(rng, grid) + rng.choice([0, 0, 1, -1, 2]), 0) for _ in range(rng.randint(1001, 1500))]
                q = {'timestamps': ','.join(str(t) for t in tss)}
                if rng.random() < 0.3:                   # the range arguments are validated but otherwise ignored
                    q['limit'] = str(rng.choice([1, 1, 2, 2, 3, 1000, 10000]))
                if rng.random() < 0.15:
                    q['to'] = str(self._ts(rng, grid))
                if rng.random() < 0.15:
                    q['from'] = str(self._ts(rng, grid))
                if rng.random() < 0.1:
                    q['from'] = self._weird(rng, grid)
                if rng.random() < 0.05:
                    q['timestamps'] = self._weird(rng, grid)
                ops.append(['get', rng.choice([10, 10, 10, 20, 30, 30, 0, 5]) if rng.random() < 0.1 else 10, p, now, q])
            elif r < 0.60:                                 # range query
                q = {}
                c = rng.random()
                if c < 0.75:
                    q['from'] = str(self._ts(rng, grid)) if rng.random() < 0.8 else rng.choice(['0', '', '0'])
                elif c < 0.9:
                    q['from'] = self._weird(rng, grid)
                if rng.random() < 0.6:
                    q['to'] = str(self._ts(rng, grid)) if rng.random() < 0.9 else self._weird(rng, grid)
                if rng.random() < 0.5:
                    q['limit'] = (str(rng.choice([1, 1, 2, 2, 3, 4, 1000, 10000])) if rng.random() < 0.85
                                  else self._weird(rng, grid))
                ops.append(['get', rng.choice([10, 20, 30, 0, 5]) if rng.random() < 0.08 else 10, p, now, q])
            elif r < 0.72:                                 # delete
                a, b = self._ts(rng, grid), self._ts(rng, grid)
                if rng.random() < 0.6 and a > b:
                    a, b = b, a
                q = {'from': str(a), 'to': str(b)}
                c = rng.random()
                if c < 0.08:
                    q.pop(rng.choice(['from', 'to']))
                elif c < 0.16:
                    q[rng.choice(['from', 'to'])] = self._weird(rng, grid)
                ops.append(['del', rng.choice([30, 30, 30, 30, 30, 20, 10, 0]), p, now, q])
            elif r < 0.84:                                 # value change through a polling pass
                if p == UNKNOWN_PORT:
                    p = main
                tag = PORTS[p][1]
                v = {'b': lambda: rng.choice(['b0', 'b1', 'b1', 'n']),
                     'i': lambda: rng.choice(['i0', 'i1', 'i2', 'i-3', 'n', 'i7']),
                     'n': lambda: rng.choice(['f0', 'f1', 'f6', 'f-10', 'n', 'f4'])}[tag]()
                ops.append(['poll', p, now, v])
            elif r < 0.87:
                if p == UNKNOWN_PORT:
                    p = main
                ops.append(['hsave', p, now])
            elif r < 0.92:
                if p == UNKNOWN_PORT:
                    p = main
                ops.append(['hslice', p, rng.choice([None, self._ts(rng, grid)]), rng.choice([None, self._ts(rng, grid)]),
                            rng.choice([None, None, 1, 2, 3]), rng.random() < 0.6])
            elif r < 0.94:
                if p == UNKNOWN_PORT:
                    p = main
                tss = [self._ts(rng, grid) for _ in range(rng.randint(0, 4))]
                if recent_ts and rng.random() < 0.5:
                    tss.append(rng.choice(recent_ts))
                recent_ts = (recent_ts + tss)[-8:]
                ops.append(['hbyts', p, now, tss])
            elif r < 0.97:
                ps = rng.sample(names, rng.choice([1, 1, 2, 3]))
                ops.append(['hremove', ps, rng.choice([None, self._ts(rng, grid)]), rng.choice([None, self._ts(rng, grid)]), now])
            elif r < 0.985:
                if p == UNKNOWN_PORT:
                    p = main
                ops.append(['interval', p, rng.choice([-1, 0, 5, 1])])
            elif r < 0.99:
                if p == UNKNOWN_PORT:
                    p = main
                ops.append(['retention', p, rng.choice([0, 1, 3600, 5 * 3600])])
            else:
                ops.append(['tick', now])
        retention = {n: rng.choice([0, 0, 0, 3600, 4 * 3600, 1]) for n in names}
        case = {'driver': driver, 'base': base, 'intervals': intervals, 'retention': retention, 'seeds': seeds}
        if rng.random() < 0.08:
            ops = self._recreate(rng, ops, main)
            if rng.random() < 0.4:
                case['virtual'] = True
        if rng.random() < 0.35:
            ops = self._overlap(rng, ops)
        case['ops'] = ops
        return case

    def _recreate(self, rng, ops, main):
        """Somewhere in the sequence the main port is removed and created again with another type; the values read
        afterwards are values of that type."""
        def now_of(o):
            return {'get': 3, 'del': 3, 'poll': 2, 'hsave': 2, 'hbyts': 2, 'hremove': 4, 'tick': 1}.get(o[0])
        i = rng.randint(0, len(ops))
        nows = [o[now_of(o)] for o in ops[:i] if now_of(o) is not None]
        tag = rng.choice([t for t in 'bin' if t != PORTS[main][1]] * 3 + [PORTS[main][1]])
        op = ['recreate', main, tag, rng.choice(['api', 'core']), max(nows) if nows else 0, rng.choice([-1, -1, 0, 2]),
              rng.choice([0, 0, 3600])]
        rest = [[o[0], o[1], o[2], rng.choice(self.VALUES[tag])] if o[0] == 'poll' and o[1] == main else o
                for o in ops[i:]]
        return ops[:i] + [op] + rest

    @staticmethod
    def _overlap(rng, ops):
        """Suspend one by-timestamp query or removal of the sequence at its persistence call, let the next 1-3 operations
        overtake it, resume it, and ask the same by-timestamp question again afterwards."""
        def is_byts(o):
            return (o[0] == 'get' and 'timestamps' in o[4] and len(o[4]['timestamps']) < 400) or o[0] == 'hbyts'
        cand = [i for i, o in enumerate(ops) if is_byts(o) or o[0] in ('del', 'hremove')]
        if not cand:
            return ops
        i = rng.choice(cand)
        outer = ops[i]
        n_inner = rng.choice([1, 1, 2, 3])
        inner = ops[i + 1:i + 1 + n_inner]
        rest = ops[i + 1 + n_inner:]
        def now_of(o):
            return {'get': 3, 'del': 3, 'poll': 2, 'hsave': 2, 'hbyts': 2, 'hremove': 4, 'tick': 1, 'recreate': 4}.get(o[0])
        nows = [o[now_of(o)] for o in ops[:i + 1 + n_inner] if now_of(o) is not None]
        later = max(nows) if nows else 0
        again = []
        asked = [o for o in [outer] + inner if is_byts(o)]
        for o in asked[:2]:
            o2 = list(o)
            o2[now_of(o)] = later
            again.append(o2)
        return ops[:i] + [['begin', rng.choice(['a', 'b']), outer]] + inner + [['end']] + again + rest

    def shrink_candidates(self, case):
        ops, seeds = case['ops'], case['seeds']
        n = len(ops)
        for size in (n // 2, n // 4, 1):
            if size < 1:
                continue
            for i in range(0, n, size):
                cand = ops[:i] + ops[i + size:]
                if cand and len(cand) < n:
                    yield dict(case, ops=cand)
        for i, op in enumerate(ops):                       # run a suspended operation to completion instead
            if op[0] == 'begin':
                rest = ops[i + 1:]
                if ['end'] in rest:
                    k = rest.index(['end'])
                    rest = rest[:k] + rest[k + 1:]
                yield dict(case, ops=ops[:i] + [op[2]] + rest)
        m = len(seeds)
        for size in (m // 2, 1):
            if size < 1:
                continue
            for i in range(0, m, size):
                yield dict(case, seeds=seeds[:i] + seeds[i + size:])
        for i, op in enumerate(ops):
            if op[0] in ('get', 'del') and isinstance(op[4], dict) and len(op[4].get('timestamps', '')) < 2000:
                q = op[4]
                for k in list(q):
                    if k != 'timestamps' and len(q) > 1:
                        q2 = dict(q)
                        del q2[k]
                        yield dict(case, ops=ops[:i] + [op[:4] + [q2]] + ops[i + 1:])
                if 'timestamps' in q and ',' in q['timestamps']:
                    parts = q['timestamps'].split(',')
                    for j in range(len(parts)):
                        q2 = dict(q, timestamps=','.join(parts[:j] + parts[j + 1:]))
                        yield dict(case, ops=ops[:i] + [op[:4] + [q2]] + ops[i + 1:])
        if case['driver'] != 'json':
            yield dict(case, driver='json')
        if case.get('virtual'):
            yield {k: v for k, v in case.items() if k != 'virtual'}
        for i, op in enumerate(ops):
            if op[0] == 'recreate' and op[3] != 'core':
                yield dict(case, ops=ops[:i] + [op[:3] + ['core'] + op[4:]] + ops[i + 1:])

    # ------------------------------------------------------------------------------------------ real code
    async def _api(self, func, level, method, port, query):
        try:
            res = await func(FakeHandler(level, method, query), port)
        except self.core_api.APIError as e:
            if e.status in (401, 403, 404):
                return f'err {e.status}'
            kind = {'missing-field': 'missing', 'invalid-field': 'invalid'}.get(e.code, e.code)
            return f'err {kind}:{e.params.get("field")}'
        return res

    @staticmethod
    def _canon_slice(res):
        out = []
        for s in res:
            if isinstance(s, dict):
                if set(s) != {'timestamp', 'value'}:
                    out.append(('?keys', sorted(s)))
                else:
                    out.append((s['timestamp'], tok_of_value(s['value'])))
            else:
                out.append((s[0], tok_of_value(s[1])))
        return out

    @staticmethod
    def _canon_byts(res):
        out = []
        for s in res:
            if s is None:
                out.append('n')
            elif set(s) != {'timestamp', 'value'}:
                out.append(('?keys', sorted(s)))
            else:
                out.append((s['timestamp'], tok_of_value(s['value'])))
        return out

    @staticmethod
    def _events(case):
        """The operations of a case as a flat, well-formed event list: `['begin', mode, op]` suspends `op` (a by-timestamp
        query or a removal) at its persistence call - mode 'b' before the call executes on the store, 'a' after (reply
        held back) - the following operations run to completion, `['end']` resumes it.  At most one operation is
        suspended at a time; stray markers (shrinking) are dropped, a missing `end` is supplied; the final content of
        every port is read at the end.  `['recreate', port, tag, how, now, interval, retention]` replaces the port by a new
        one of type `tag` with the same id (how: 'api' = POST /ports, 'core' = core.ports.load)."""
        ev, open_ = [], False
        tagof = {n: t for n, (_, t) in PORTS.items()}
        for op in case['ops']:
            if op[0] == 'recreate':
                tagof[op[1]] = op[2]
            elif op[0] == 'poll':          # a reading is a value of the type of the port that exists now
                op = [op[0], op[1], op[2], coerce_tok(op[3], tagof[op[1]])]
            if op[0] == 'begin':
                if open_ or op[2][0] not in ('get', 'hbyts', 'del', 'hremove'):
                    continue
                open_ = True
            elif op[0] == 'end':
                if not open_:
                    continue
                open_ = False
            ev.append(op)
        if open_:
            ev.append(['end'])
        return ev + [['hslice', n, None, None, None, False] for n in PORTS]

    async def _exec(self, op, base, byname):
        """One operation on the real code, run to completion; returns its canonical observable."""
        k = op[0]
        if k == 'get':
            _, level, port, now, query = op
            vclock.set(clock_of(base + now))
            res = await self._api(self.ports_funcs.get_port_history, level, 'GET', port, query)
            if isinstance(res, str):
                return res
            if 'timestamps' in query:
                return ['t', self._canon_byts(list(res))]
            return ['s', self._canon_slice(list(res))]
        if k == 'del':
            _, level, port, now, query = op
            vclock.set(clock_of(base + now))
            res = await self._api(self.ports_funcs.delete_port_history, level, 'DELETE', port, query)
            return res if isinstance(res, str) else 'ok'
        if k == 'poll':
            _, port, now, tok = op
            vclock.set(clock_of(base + now))
            if isinstance(byname[port], self.SrcPort):
                byname[port].src_value = value_of_tok(tok)
            else:
                await byname[port].write_value(value_of_tok(tok))      # virtual port: the value its next reading gives
            await self.core_main.update()
            for _ in range(6):
                await asyncio.sleep(0)
            return 'ok'
        if k == 'hsave':
            _, port, now = op
            vclock.set(clock_of(base + now))
            await self.core_history.save_sample(byname[port], base + now)
            return 'ok'
        if k == 'hslice':
            _, port, frm, to, limit, desc = op
            res = await self.core_history.get_samples_slice(byname[port], frm, to, limit, desc)
            return ['s', self._canon_slice(list(res))]
        if k == 'hbyts':
            _, port, now, tss = op
            vclock.set(clock_of(base + now))
            res = await self.core_history.get_samples_by_timestamp(byname[port], list(tss))
            return ['t', self._canon_byts(list(res))]
        if k == 'hremove':
            _, names, frm, to, now = op
            vclock.set(clock_of(base + now))
            await self.core_history.remove_samples([byname[n] for n in names], frm, to)
            return 'ok'
        if k == 'interval':
            await byname[op[1]].set_attr('history_interval', op[2])
            return 'ok'
        if k == 'retention':
            await byname[op[1]].set_attr('history_retention', op[2])
            return 'ok'
        if k == 'recreate':
            _, port, tag, how, now, interval, retention = op
            vclock.set(clock_of(base + now))
            old = byname[port]
            if isinstance(old, self.core_vports.VirtualPort):
                res = await self._api(self.ports_funcs.delete_port, self.admin_level, 'DELETE', port, {})
                if isinstance(res, str):
                    return res
            else:
                await old.remove()                                     # what DELETE /ports/{id} does with the port
            byname[port] = await self._create(port, tag, how == 'api')
            await byname[port].set_attr('history_interval', interval)
            await byname[port].set_attr('history_retention', retention)
            return 'ok'
        if k == 'tick':
            vclock.set(clock_of(base + op[1]))
            self.loop.step(1.0)            # the sleeping sampler and janitor are due: one iteration each
            for _ in range(10):
                await asyncio.sleep(0)
            return 'ok'
        raise ValueError(op)

    async def _create(self, port, tag, virtual):
        """a new port `port` of type `tag`: virtual (POST /ports) or an instrumented one (core.ports.load)"""
        if virtual:
            handler = FakeHandler(self.admin_level, 'POST', {})
            await self.ports_funcs.post_ports(handler, dict(PTYPE[tag], id=port))
            return self.core_ports.get(port)
        new = (await self.core_ports.load([{'driver': self.SrcPort, 'port_id': port, 'typ': PTYPE[tag]['type'],
                                            'integer': tag == 'i'}]))[0]
        await new.enable()
        return new

    async def _real(self, case):
        base = case['base']
        vclock.set(clock_of(base))
        await self.backends.fresh_backend(case['driver'])
        switch = self.backends.SwitchDriver
        switch.disarm()
        byname = {}
        out = []
        flight = None            # (task, gate) of the suspended operation
        recreated = any(op[0] == 'recreate' for op in case['ops'])
        try:
            for name, (_, tag) in PORTS.items():
                byname[name] = await self._create(name, tag, bool(case.get('virtual')))
            ports = list(byname.values())
            for p in ports:
                await p.set_attr('history_interval', case['intervals'][p.get_id()])
                await p.set_attr('history_retention', case.get('retention', {}).get(p.get_id(), 0))
            # the by-timestamp cache is module state keyed by port id: drop it (public function) on the empty store
            await self.core_history.remove_samples(ports)
            for p in ports:          # every port has been asked for its history before (an answer from the empty store)
                list(await self.core_history.get_samples_slice(p, None, None, 1))
            for name, ts, q in case['seeds']:
                await self.persist.save_sample(COLLECTION, name, ts, q / 4.0)
            for op in self._events(case):
                if op[0] == 'begin':
                    _, mode, outer = op
                    gate = switch.arm('byts' if outer[0] in ('get', 'hbyts') else 'remove', mode)
                    task = asyncio.ensure_future(self._exec(outer, base, byname))
                    for _ in range(40):
                        if task.done() or gate.reached:
                            break
                        await asyncio.sleep(0)
                    if task.done():          # refused, or answered without reaching the persistence layer
                        switch.disarm()
                        out.append(task.result())
                    elif gate.reached:
                        flight = (task, gate)
                        out.append('pending')
                    else:
                        raise RuntimeError(f'suspended operation neither finished nor reached the persistence layer: {op}')
                elif op[0] == 'end':
                    if flight is None:
                        out.append('ok')
                    else:
                        task, gate = flight
                        flight = None
                        gate.event.set()
                        out.append(await task)
                else:
                    out.append(await self._exec(op, base, byname))
        finally:
            switch.disarm()
            if flight is not None:
                flight[1].event.set()
                try:
                    await flight[0]
                except Exception:
                    pass
            for p in byname.values():
                await p.remove(persisted_data=False)
                if isinstance(p, self.core_vports.VirtualPort):
                    await self.core_vports.remove(p.get_id())
            await asyncio.sleep(0)
            if recreated:            # the removals scheduled by the port removals of this case must not reach the next one
                vclock.set(clock_of(max(base, T0) + 100 * HOUR))
                self.loop.step(1.0)
                for _ in range(10):
                    await asyncio.sleep(0)
        return out

    # ------------------------------------------------------------------------------------------ model
    def _model_line(self, op, base):
        pid_of = lambda n: PORTS[n][0] if n in PORTS else UNKNOWN_PID   # noqa: E731
        k = op[0]
        if k == 'get':
            _, level, port, now, q = op
            return (f'get {level} {pid_of(port)} {base + now} {hexq(q.get("from"))} {hexq(q.get("to"))} '
                    f'{hexq(q.get("limit"))} {hexq(q.get("timestamps"))}')
        if k == 'del':
            _, level, port, now, q = op
            return f'del {level} {pid_of(port)} {hexq(q.get("from"))} {hexq(q.get("to"))}'
        if k == 'poll':
            return f'poll {pid_of(op[1])} {base + op[2]} {op[3]}'
        if k == 'hsave':
            return f'hsave {pid_of(op[1])} {base + op[2]}'
        if k == 'hslice':
            _, port, frm, to, limit, desc = op
            return f'hslice {pid_of(port)} {optw(frm)} {optw(to)} {optw(limit)} {1 if desc else 0}'
        if k == 'hbyts':
            _, port, now, tss = op
            return f'hbyts {pid_of(port)} {base + now} {",".join(map(str, tss)) if tss else "-"}'
        if k == 'hremove':
            _, names, frm, to, now = op
            return f'hremove {",".join(str(pid_of(n)) for n in names) if names else "-"} {optw(frm)} {optw(to)}'
        if k == 'interval':
            return f'interval {pid_of(op[1])} {op[2]}'
        if k == 'retention':
            return f'retention {pid_of(op[1])} {op[2]}'
        if k == 'tick':
            return f'tick {base + op[1]}'
        if k == 'recreate':
            return f'recreate {pid_of(op[1])} {op[2]} {op[5]} {op[6]}'
        if k == 'begin':
            _, mode, outer = op
            return ('gbegin' if outer[0] in ('get', 'hbyts') else 'dbegin') + f' {mode} ' + self._model_line(outer, base)
        if k == 'end':
            return 'end'
        raise ValueError(op)

    def _model(self, case, driver):
        """Model proper: flags 3 = by-timestamp answer in request order (fcb4d90) + the cache invalidated again after
        the awaited removal (d4ebdd9)."""
        base = case['base']
        rep = driver.ask(f'begin 3 {self.min_age} {self.old_limit} {API_DEFAULT_LIMIT} {API_MAX_LIMIT} '
                         f'{self.view_level} {self.admin_level}')
        assert rep == 'ok', rep
        for name, (pid, tag) in PORTS.items():
            assert driver.ask(f'port {pid} {tag} {case["intervals"][name]} {case.get("retention", {}).get(name, 0)}') == 'ok'
        for name, ts, q in case['seeds']:
            assert driver.ask(f'seed {PORTS[name][0]} {ts} {q}') == 'ok'
        out = []
        hits = 0
        for op in self._events(case):
            rep = driver.ask(self._model_line(op, base))
            if rep == 'bad-op':
                raise AssertionError(f'model driver rejected {op}')
            if rep.startswith('err') or rep == 'pending':
                out.append(rep)
            elif rep.startswith('ok s'):
                out.append(['s', self._parse_entries(rep[4:])])
            elif rep.startswith('ok t'):
                body = rep[4:].split()
                hits += int(body[0][1:])
                out.append(['t', self._parse_entries(body[1] if len(body) > 1 else '')])
            else:
                out.append('ok')
        return out, hits

    @staticmethod
    def _parse_entries(body):
        res = []
        for part in body.strip().split(';'):
            if not part:
                continue
            if part == 'n':
                res.append('n')
            else:
                ts, tok = part.split(':')
                res.append((int(ts), tok))
        return res

    # ------------------------------------------------------------------------------------------ oracle
    def _oracle(self, case, real):
        """The property statement evaluated on the real answers, from the list of recorded samples alone.
        Returns (failure text or None, per-event ambiguity info for the correspondence, tags).

        `stores` is the list of sample lists the hub may legitimately be answering from: one, except while (and after) a
        removal is suspended at its persistence call - it takes effect at some instant before it returns, so `bases`
        holds the store without it and `stores` the stores with it applied at each possible instant.  The
        answer of a by-timestamp query that was itself suspended must, entry by entry, be right for the store at some
        instant between its start and its end; every later answer must be right for the then-current store."""
        base = case['base']
        stores = [[(n, ts, q) for n, ts, q in case['seeds']]]       # (port, ts, quarters), insertion order
        last = {n: 'n' for n in PORTS}
        interval = dict(case['intervals'])
        retention = {n: case.get('retention', {}).get(n, 0) for n in PORTS}
        last_ts = {n: 0 for n in PORTS}
        tagof = {n: t for n, (_, t) in PORTS.items()}     # type of the port that exists NOW under each id
        scheduled = []        # ids of removed ports: the janitor removes the samples stored under them at its next pass
        fail = None
        amb = []              # per event: timestamps whose value is not determined (ties)
        tags = set()
        ops = self._events(case)
        pend_get = None       # (port, tss, snapshots) of a suspended by-timestamp query
        pend_del = None       # function applying the suspended removal

        bases = []            # while a removal is suspended: the candidate stores WITHOUT it (else empty)

        def uniq(lst):
            seen, keep = set(), []
            for st in lst:
                key = tuple(st)
                if key not in seen:
                    seen.add(key)
                    keep.append(st)
            return keep

        def candidates():
            return bases + stores

        def mutate(fn):
            bases[:] = uniq([fn(b) for b in bases])
            stores[:] = [fn(st) for st in stores]
            if pend_del is not None:
                stores.extend(pend_del(b) for b in bases)      # ... or the suspended removal takes effect only now
            stores[:] = uniq(stores)
            if pend_get is not None:
                pend_get[2].extend([list(st) for st in candidates()])

        def mutate_either(fns):
            """one of several store changes happens, which one is not specified (two tasks in the same instant)"""
            bases[:] = uniq([fn(b) for fn in fns for b in bases])
            stores[:] = [fn(st) for fn in fns for st in stores]
            if pend_del is not None:
                stores.extend(pend_del(b) for b in bases)
            stores[:] = uniq(stores)
            if pend_get is not None:
                pend_get[2].extend([list(st) for st in candidates()])

        def check_slice_one(store, idx, port, frm, to, limit, desc, got):
            tag = tagof[port]
            sel = [(ts, q) for (n, ts, q) in store if n == port and (frm is None or frm <= ts) and (to is None or ts < to)]
            sel.sort(key=lambda s: s[0], reverse=desc)
            exp = sel if limit is None else sel[:limit]
            if limit is not None and len(sel) > limit:
                tags.add('limit-cut')
            if any(frm == ts for ts, _ in sel) and frm is not None:
                tags.add('from-boundary-hit')
            if to is not None and any(n == port and ts == to for (n, ts, q) in store):
                tags.add('to-boundary-sample')
            groups = collections.defaultdict(collections.Counter)
            for ts, q in sel:
                groups[ts][adapt(tag, q)] += 1
            ambiguous = {ts for ts, c in groups.items() if len(c) > 1}
            if ambiguous:
                tags.add('tie-distinct-values')
            elif any(sum(c.values()) > 1 for c in groups.values()):
                tags.add('tie-equal-values')
            if not isinstance(got, list) or got[0] != 's':
                return f'op {idx} {ops[idx]}: expected a range answer, got {got}', ambiguous
            got = got[1]
            if [g[0] for g in got] != [e[0] for e in exp]:
                return (f'op {idx} {ops[idx]}: timestamps of the answer {[g[0] for g in got]} differ from the stored samples '
                        f'in range, {"newest" if desc else "oldest"} first, first {limit}: {[e[0] for e in exp]}'), ambiguous
            gg = collections.defaultdict(collections.Counter)
            for ts, tok in got:
                gg[ts][tok] += 1
            for ts, c in gg.items():
                if any(c[t] > groups[ts][t] for t in c):
                    return (f'op {idx} {ops[idx]}: values at timestamp {ts} are {dict(c)}, stored (typed like the port): '
                            f'{dict(groups[ts])}'), ambiguous
            return None, ambiguous

        def check_slice(idx, port, frm, to, limit, desc, got):
            first, ambiguous = None, set()
            for st in candidates():
                f, a = check_slice_one(st, idx, port, frm, to, limit, desc, got)
                ambiguous |= a
                if f is None:
                    return None, ambiguous
                first = first or f
            return first, ambiguous

        def check_byts(idx, port, tss, got, cands=None, tag=None):
            cands = candidates() if cands is None else cands
            tag = tagof[port] if tag is None else tag
            if len(tss) != len(set(tss)):
                tags.add('dup-timestamps')
            if tss != sorted(tss):
                tags.add('unsorted-timestamps')
            if len(tss) > API_DEFAULT_LIMIT:
                tags.add('more-timestamps-than-limit')
            ambiguous = set()
            if not isinstance(got, list) or got[0] != 't':
                return f'op {idx} {ops[idx]}: expected a by-timestamp answer, got {got}', ambiguous
            got = got[1]
            exp = []
            memo = {}
            for t in tss:
                if t in memo:
                    exp.append(memo[t])
                    continue
                allowed = set()          # typed values, None = null
                for store in cands:
                    cand = [(ts, q) for (n, ts, q) in store if n == port and ts <= t]
                    if not cand:
                        allowed.add(None)
                        continue
                    m = max(ts for ts, _ in cand)
                    if m == t:
                        tags.add('exact-timestamp-hit')
                    here = {adapt(tag, q) for ts, q in cand if ts == m}
                    if len(here) > 1:        # a tie with distinct values: which one is unspecified (also for the model)
                        ambiguous.add(t)
                        tags.add('tie-distinct-values')
                    allowed |= here
                if len(allowed) > 1 and t not in ambiguous:
                    tags.add('overlap-either-answer')   # the oracle accepts either; model and code must still agree
                memo[t] = allowed
                exp.append(allowed)
            ambiguous = {('idx', j) for j, t in enumerate(tss) if t in ambiguous}
            if len(got) != len(tss):
                return (f'op {idx} {str(ops[idx])[:300]}: {len(got)} entries for {len(tss)} requested timestamps '
                        f'(answer {str(got)[:300]})'), ambiguous
            for j, (t, e, g) in enumerate(zip(tss, exp, got)):
                if g == 'n':
                    if None not in e:
                        return (f'op {idx} {str(ops[idx])[:300]}: entry {j} (timestamp {t}) is null, newest sample at or '
                                f'before it has value {sorted(x for x in e if x)}'), ambiguous
                elif g[0] != t or g[1] not in e:
                    return (f'op {idx} {str(ops[idx])[:300]}: entry {j} is {g}; requested timestamp {t}, newest sample at or '
                            f'before it has value {sorted(str(x) for x in e)}'), ambiguous
            return None, ambiguous

        def parse_byts(q):
            return [int(x) for x in q['timestamps'].split(',')]

        def eval_op(idx, op, got):
            """atomic operation: returns (failure, ambiguity)"""
            nonlocal pend_get
            k = op[0]
            f, a = None, set()
            if k == 'get':
                _, level, port, now, q = op
                if isinstance(got, str):
                    tags.add(got.split(':')[0] if got.startswith('err ') and ':' in got else got)
                elif port in PORTS:
                    try:
                        if 'timestamps' in q:
                            if len(q) > 1:
                                tags.add('timestamps-with-range-args')
                            f, a = check_byts(idx, port, parse_byts(q), got)
                        else:
                            frm = int(q['from']) if q.get('from') else None
                            to = int(q['to']) if 'to' in q else base + now
                            limit = int(q['limit']) if 'limit' in q else API_DEFAULT_LIMIT
                            if 'to' not in q:
                                tags.add('default-to')
                            if not q.get('from'):
                                tags.add('no-from')
                            f, a = check_slice(idx, port, frm, to, limit, False, got)
                    except ValueError:
                        f = f'op {idx} {op}: answered although an argument is not an integer: {got}'
                else:
                    f = f'op {idx} {op}: answer for a port that does not exist: {got}'
            elif k == 'del':
                _, level, port, now, q = op
                if got == 'ok':
                    tags.add('delete')
                    try:
                        frm, to = int(q['from']), int(q['to'])
                        mutate(lambda st: [x for x in st if not (x[0] == port and frm <= x[1] < to)])
                    except (ValueError, KeyError):
                        f = f'op {idx} {op}: accepted although from/to are not both integers'
                else:
                    tags.add(got.split(':')[0] if ':' in got else got)
            elif k == 'poll':
                _, port, now, tok = op
                if tok != last[port]:
                    last[port] = tok
                    if interval[port] == -1 and clock_of(base + now) > self.old_limit / 1000:
                        last_ts[port] = base + now
                    if interval[port] == -1 and clock_of(base + now) > self.old_limit / 1000 and tok != 'n':
                        smp = (port, base + now, stored_of_tok(tok))
                        mutate(lambda st: st + [smp])
                        tags.add('change-recorded')
                    else:
                        tags.add('change-not-recorded')
            elif k == 'hsave':
                _, port, now = op
                if last[port] != 'n':
                    smp = (port, base + now, stored_of_tok(last[port]))
                    mutate(lambda st: st + [smp])
                    tags.add('save-sample')
            elif k == 'hslice':
                _, port, frm, to, limit, desc = op
                if desc and idx < len(ops) - len(PORTS):
                    tags.add('descending')
                f, a = check_slice(idx, port, frm, to, limit, desc, got)
            elif k == 'hbyts':
                f, a = check_byts(idx, op[1], list(op[3]), got)
            elif k == 'hremove':
                _, names, frm, to, now = op
                tags.add('delete')
                mutate(lambda st: [x for x in st if not ((not names or x[0] in names) and (frm is None or frm <= x[1])
                                                         and (to is None or x[1] < to))])
            elif k == 'interval':
                interval[op[1]] = op[2]
            elif k == 'retention':
                retention[op[1]] = op[2]
            elif k == 'recreate':
                _, port, tag, how, now, iv, rt = op
                if got != 'ok':
                    f = f'op {idx} {op}: removing the port and creating it again was refused: {got}'
                tags.add('recreate-same-type' if tag == tagof[port] else 'recreate-other-type')
                tags.add('recreate-' + how)
                if any(n == port for (n, ts, q) in candidates()[0]):
                    tags.add('recreate-with-samples-stored')
                tagof[port], last[port], last_ts[port], interval[port], retention[port] = tag, 'n', 0, iv, rt
                scheduled.append(port)
            elif k == 'tick':
                now_ms = base + op[1]
                if clock_of(now_ms) > self.old_limit / 1000:
                    now_s = now_ms // 1000
                    for n in PORTS:                 # janitor: samples older than the retention go
                        if retention[n] > 0:
                            lim = (now_s - retention[n]) * 1000
                            before = len(candidates()[0])
                            mutate(lambda st, n=n, lim=lim: [x for x in st if not (x[0] == n and 0 <= x[1] < lim)])
                            if len(candidates()[0]) != before:
                                tags.add('janitor-removed')
                    smps = []
                    for n in PORTS:                 # sampler: ports with a period whose last sample is old enough
                        if interval[n] > 0 and now_ms - last_ts[n] >= interval[n] * 1000:
                            last_ts[n] = now_ms
                            if last[n] != 'n':
                                smps.append((n, now_ms, stored_of_tok(last[n])))
                                tags.add('periodic-sample')
                        elif interval[n] > 0:
                            tags.add('periodic-not-due')
                    if scheduled:                   # ... the janitor also removes everything stored under the ids of
                        gone = set(scheduled)       # removed ports; sampler and janitor are two tasks: either comes first
                        del scheduled[:]
                        before = len(candidates()[0])
                        mutate_either([lambda st: [x for x in st if x[0] not in gone] + smps,
                                       lambda st: [x for x in st + smps if x[0] not in gone]])
                        tags.add('scheduled-removal' if len(candidates()[0]) != before + len(smps)
                                 else 'scheduled-removal-nothing')
                    elif smps:
                        mutate(lambda st: st + smps)
            return f, a

        for idx, op in enumerate(ops):
            got = real[idx]
            f, a = None, set()
            if op[0] == 'begin':
                _, mode, outer = op
                if got != 'pending':
                    f, a = eval_op(idx, outer, got)            # completed at once: an ordinary operation
                elif outer[0] in ('get', 'hbyts'):
                    tags.add('overlapped-query-' + mode)
                    port = outer[2] if outer[0] == 'get' else outer[1]
                    tss = parse_byts(outer[4]) if outer[0] == 'get' else list(outer[3])
                    pend_get = (port, tss, [list(st) for st in candidates()], tagof[port])
                else:
                    tags.add('overlapped-removal-' + mode)
                    if outer[0] == 'del':
                        port, frm, to = outer[2], int(outer[4]['from']), int(outer[4]['to'])
                        rm = lambda st, port=port, frm=frm, to=to: [x for x in st if not (x[0] == port and frm <= x[1] < to)]  # noqa: E731
                    else:
                        names, frm, to = outer[1], outer[2], outer[3]
                        rm = lambda st, names=names, frm=frm, to=to: [  # noqa: E731
                            x for x in st if not ((not names or x[0] in names) and (frm is None or frm <= x[1])
                                                  and (to is None or x[1] < to))]
                    pend_del = rm
                    bases[:] = stores                          # from now on: without the removal ...
                    stores[:] = uniq([rm(b) for b in bases])   # ... or with it
            elif op[0] == 'end':
                if pend_get is not None:
                    port, tss, snaps, tag = pend_get      # typed like the port the query was made for
                    pend_get = None
                    f, a = check_byts(idx, port, tss, got, cands=snaps, tag=tag)
                elif pend_del is not None:
                    pend_del = None
                    tags.add('delete')
                    bases[:] = []                              # the removal has returned: it has taken effect
            else:
                f, a = eval_op(idx, op, got)
            amb.append(a)
            if f and fail is None:
                fail = f
        return fail, amb, tags

    @staticmethod
    def _relax(ans, ambiguous):
        """Canonical form for the model-vs-code comparison: values at tie timestamps with distinct stored values (and
        entries of an overlapped query that may legitimately reflect either of two store states) are not determined
        by the property -> wildcard.  Range answers: by timestamp; by-timestamp answers: by position."""
        if not isinstance(ans, list):
            return ans
        kind, entries = ans
        out = []
        for j, e in enumerate(entries):
            if ('idx', j) in ambiguous and kind == 't':
                out.append('*')
            elif isinstance(e, tuple) and e[0] in ambiguous and kind == 's':
                out.append([e[0], '*'])
            else:
                out.append(list(e) if isinstance(e, tuple) else e)
        return [kind, out]

    # ------------------------------------------------------------------------------------------ one case
    def run_case(self, case, driver):
        real = self.loop.run_until_complete(self._real(case))
        model, hits = self._model(case, driver)
        ofail, amb, tags = self._oracle(case, real)
        tags.add('driver-' + case['driver'])
        if not self.min_age_observed:
            tags.add('min-age-not-observed')
        if hits:
            tags.add('cache-hit')
        events = self._events(case)
        nops = len(events) - len(PORTS)
        real_c = [self._relax(r, amb[i]) for i, r in enumerate(real)]
        model_c = [self._relax(m, amb[i]) for i, m in enumerate(model)]
        fail = None
        if ofail is not None:
            fail = Failure('property', ofail, real=real_c, model=model_c)
        elif real_c != model_c:
            k = next(i for i in range(len(model_c)) if real_c[i] != model_c[i])
            what = events[k] if k < nops else f'final content of port {list(PORTS)[k - nops]}'
            fail = Failure('correspondence', f'first difference at op {k} {str(what)[:300]}: real {str(real_c[k])[:300]} '
                           f'model {str(model_c[k])[:300]}', real=real_c, model=model_c)
        nonempty = any(isinstance(r, list) and r[1] and r[1] != ['n'] * len(r[1]) for r in real[:nops])
        key = None
        if nonempty and tags & {'cache-hit', 'delete', 'change-recorded', 'save-sample', 'limit-cut', 'dup-timestamps',
                                'unsorted-timestamps', 'periodic-sample', 'janitor-removed', 'overlapped-query-a',
                                'overlapped-query-b', 'overlapped-removal-a', 'overlapped-removal-b',
                                'recreate-other-type'}:
            key = repr(real_c)[:4000]
        return fail, {'tags': sorted(tags), 'key': key, 'observed': real_c if len(repr(real_c)) < 20000 else 'long'}

    def known_match(self, finding, case, failure):
        return False          # no recorded-but-unrepaired finding: every violation is reported


PROP = C18
