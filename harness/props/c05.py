"""C05 — API value writes are validated against the port's declared value domain.

Real side: the API functions `patch_port_value` / `patch_port_sequence` (core/api/funcs/ports.py) called with a fake
request handler on a real, instrumented `core.ports.Port` subclass (attributes set the way core/vports.py does; the
driver's `write_value` records what it is handed), bodies parsed by the repository's own `utils.json.loads`, the
port's write queue / sequence task driven on a virtual-time event loop.
Model side: QtVerif.Model.ValueDomain via Driver/C05.lean; numbers cross as exact integer fractions, never floats.
Oracle: the property statement evaluated directly, in exact `Fraction` arithmetic, on the real observations
(accepted iff exists/enabled/writable/in-domain; a refusal calls no driver and changes nothing observable; an accepted
request hands the driver coerce(transform(value)); every value a sequence writes comes from an accepted request).

Ports with driver-computed attributes (cases with 'dyn'): a `DynPort` answers BasePort.get_attr() through the
`attr_is_writable` / `attr_get_step` / `attr_get_min` / `attr_get_max` / `attr_is_integer` / `attr_get_choices` hooks from
what its driver declares at that moment; the case changes the declaration over time ('attrs'), runs passes of the real
polling loop `core.main.update()` ('poll'), switches the driver's read side between ok / SkipRead / PortReadError
('fault'), reads all attributes through GET /ports ('get'), and writes values. "Declared" at the time of a request = what
the driver declares, provided a polling pass has completed with the port enabled since the declaration changed (that is
when the unchanged code drops its per-iteration attribute cache, for every enabled port, polled or not); requests made
before that pass are not judged. min/max/integer/choices only change before the first request (the value schema is built
once and kept). Details where the oracle is set up in `run_case`.
"""
import asyncio
import heapq
import json
import logging
import math
import signal
from fractions import Fraction

from harness import vloop
from harness.core import Failure, Prop

F = Fraction
BIG_DRAIN_MS = 200001

NUM_TW = ['MUL($, 2)', 'ADD($, 0.5)', 'SUB(10, $)', 'DIV($, 4)', 'DIV(1, $)', 'FLOOR($)', 'MUL($, 0.1)',
          'IF(GT($, 5), 1, 0)', 'ABS($)', '$', 'NOT($)', 'MOD($, 3)', 'IF(GT($, 5), unavailable, $)', 'MUL($, -1.5)']
# value expressions a port may follow. Their source is a port id that names no port, or a port that stays disabled:
# evaluating them raises UnknownPortId / DisabledPort, so the port's own evaluations never write anything and every
# driver call still belongs to a request
SRC_ABSENT, SRC_DISABLED = 'verif_absent_src', 'verif_disabled_src'
NUM_EXPR = ['$' + SRC_ABSENT, 'ADD($' + SRC_ABSENT + ', 1)', '$' + SRC_DISABLED, 'ADD($' + SRC_DISABLED + ', 1)',
            'MUL($' + SRC_DISABLED + ', $)', 'IF(GT($' + SRC_ABSENT + ', 5), 1, 0)']
BOOL_EXPR = ['$' + SRC_ABSENT, 'NOT($' + SRC_DISABLED + ')', 'AND($' + SRC_DISABLED + ', $' + SRC_ABSENT + ')']
BOOL_TW = ['NOT($)', '$', 'IF($, 0, 1)', 'MUL($, 2)', 'IF($, unavailable, false)', 'SUB($, 1)', 'SUB(0.5, $)']


class Stalled(BaseException):
    """A case exceeded its hard bound (event-loop iterations, virtual time or wall clock)."""


class WatchedLoop(vloop.VirtualLoop):
    """The shared virtual-time loop plus a per-case watchdog: a case that keeps the loop turning (a task polling in
    virtual time for something that never happens) or runs too far into virtual time is aborted, never left to hang."""

    def __init__(self):
        super().__init__()
        self.verif_iterations_left = None
        self.verif_vt_limit = None

    def watch(self, iterations, virtual_seconds):
        self.verif_iterations_left = iterations
        self.verif_vt_limit = self.time() + virtual_seconds

    def unwatch(self):
        self.verif_iterations_left = None

    def rewind(self):
        """Between two cases, when no timer is pending, restart the virtual clock at 0. The clock must stay small: a
        timer fires when `when < now + clock_resolution` (1e-9 s), which float rounding defeats once the clock is beyond
        ~2e6 s (ulp 4.7e-10): the loop then polls for ever for a timer that is 'not yet' due (found in a thorough run:
        10 000 cases x ~205 virtual seconds per worker)."""
        if not self._scheduled and not self._ready:
            self._vt = 0.0
            self._sync()
            return True
        return False

    def _run_once(self):
        if self.verif_iterations_left is not None:
            self.verif_iterations_left -= 1
            if self.verif_iterations_left < 0:
                self.verif_iterations_left = None
                raise Stalled('more than the allowed number of event-loop iterations')
            if self.time() > self.verif_vt_limit:
                self.verif_iterations_left = None
                raise Stalled('more than the allowed virtual time')
            while self._scheduled and self._scheduled[0]._cancelled:
                h = heapq.heappop(self._scheduled)
                h._scheduled = False
            if not self._ready and not self._scheduled and not self._stopping:
                # nothing can ever wake the loop up again: select() would block for ever
                self.verif_iterations_left = None
                raise Stalled('nothing left to run while a request is still waiting (deadlock)')
        super()._run_once()


CASE_LOOP_ITERATIONS = 50000        # a case needs a few hundred
CASE_VIRTUAL_SECONDS = 3600         # a case lasts about 200 virtual seconds (the final drain)
CASE_WALL_SECONDS = 120


class FakeRequest:
    headers = {}
    method = 'PATCH'
    path = '/api/ports/x/value'
    query_arguments = {}
    body = b''


class FakeHandler:
    username = 'u'
    request = FakeRequest()

    def __init__(self, level):
        self.access_level = level


# ------------------------------------------------------------------------------------------------ exact numbers

def exact(x):
    """The rational a Python number stands for: an int is itself, a float the decimal its repr shows."""
    if isinstance(x, bool):
        return F(int(x))
    if isinstance(x, int):
        return F(x)
    return F(repr(x))


def frac_tok(q):
    return f'{q.numerator}/{q.denominator}'


def jval_tok(x):
    """Python value (as parsed by json.loads) -> model token."""
    if x is None:
        return 'null'
    if isinstance(x, bool):
        return 'b1' if x else 'b0'
    if isinstance(x, int):
        return 'i' + frac_tok(F(x))
    if isinstance(x, float):
        if math.isnan(x):
            return 'xnan'
        if math.isinf(x):
            return 'xinf' if x > 0 else 'xninf'
        return 'f' + frac_tok(exact(x))
    if isinstance(x, str):
        return 's'
    if isinstance(x, list):
        return 'a'
    if isinstance(x, dict):
        return 'o'
    raise TypeError(type(x))


def canon(x):
    """Canonical form of a value handed to the driver: the int/float look of a number is not compared."""
    if x is None:
        return ['null']
    if isinstance(x, bool):
        return ['b', int(x)]
    if isinstance(x, int):
        return ['n', frac_tok(F(x))]
    if isinstance(x, float):
        if math.isnan(x):
            return ['x', 'nan']
        if math.isinf(x):
            return ['x', 'inf' if x > 0 else 'ninf']
        return ['n', frac_tok(exact(x))]
    return ['other', type(x).__name__]


def canon_tok(tok):
    if tok == 'null':
        return ['null']
    if tok in ('b0', 'b1'):
        return ['b', int(tok[1])]
    if tok[0] in 'if':
        return ['n', frac_tok(F(tok[1:]))]
    if tok[0] == 'x':
        return ['x', tok[1:]]
    return ['other', tok]


def same_delivery(a, b):
    """Equal canonical values; two numbers also when they are the same binary64 (a driver value is a double)."""
    if a == b:
        return True
    if a[0] == 'n' and b[0] == 'n':
        try:
            return float(F(a[1])) == float(F(b[1]))
        except OverflowError:
            return False
    return False


def is_number(x):
    return isinstance(x, (int, float)) and not isinstance(x, bool)


def is_nonfinite(x):
    return isinstance(x, float) and (math.isnan(x) or math.isinf(x))


# ------------------------------------------------------------------------------------------------ the property, in Python

def well_formed(pd, parsed):
    """Range/integer/step belong to number ports; choices are values of the port's type (integral on integer ports)."""
    if pd['type'] == 'boolean':
        if pd.get('integer') or pd.get('min') is not None or pd.get('max') is not None or pd.get('step') is not None:
            return False
    ch = parsed['choices']
    if ch is not None:
        for c in ch:
            if pd['type'] == 'boolean':
                if not isinstance(c, bool):
                    return False
            else:
                if not is_number(c) or is_nonfinite(c):
                    return False
                if pd.get('integer') and exact(c).denominator != 1:
                    return False
    return True


def in_domain(pd, parsed, x, q=None):
    """The property's domain predicate. x: parsed JSON value; q: exact rational to use for a number (default: the
    parsed number's own)."""
    if isinstance(x, bool):
        of_type = pd['type'] == 'boolean'
    elif is_number(x):
        of_type = pd['type'] == 'number'
    else:
        return False
    if not of_type:
        return False
    if is_number(x) and q is None:
        q = exact(x)
    ch = parsed['choices']
    if ch is not None:
        for c in ch:
            if isinstance(c, bool) or isinstance(x, bool):
                if isinstance(c, bool) and isinstance(x, bool) and c == x:
                    return True
            elif exact(c) == q:
                return True
        return False
    if isinstance(x, bool):
        return True
    mn, mx, st = parsed['min'], parsed['max'], parsed['step']
    if mn is not None and q < exact(mn):
        return False
    if mx is not None and q > exact(mx):
        return False
    if pd.get('integer') and q.denominator != 1:
        return False
    if st is not None and mn is not None and exact(st) != 0:
        if ((q - exact(mn)) / exact(st)).denominator != 1:
            return False
    return True


def domain_class(pd, parsed, x):
    """Which clause of the domain decides (evidence histogram only)."""
    if not (isinstance(x, bool) or is_number(x)):
        return 'out:not-bool-or-number'
    if isinstance(x, bool) != (pd['type'] == 'boolean'):
        return 'out:wrong-type'
    if parsed['choices'] is not None:
        return 'in:choice' if in_domain(pd, parsed, x) else 'out:not-a-choice'
    if isinstance(x, bool):
        return 'in:boolean'
    q = exact(x)
    mn, mx, st = parsed['min'], parsed['max'], parsed['step']
    if mn is not None and q < exact(mn):
        return 'out:below-min'
    if mx is not None and q > exact(mx):
        return 'out:above-max'
    if pd.get('integer') and q.denominator != 1:
        return 'out:not-integral'
    grid = st is not None and mn is not None and exact(st) != 0
    if grid and ((q - exact(mn)) / exact(st)).denominator != 1:
        return 'out:off-grid'
    edge = (mn is not None and q == exact(mn)) or (mx is not None and q == exact(mx))
    return 'in:' + ('grid' if grid else 'range') + (':edge' if edge else '') + \
        (':integral-float' if pd.get('integer') and isinstance(x, float) else '')


def coerce_spec(pd, r):
    """"coerced to the port type": canonical form of the expected driver value for a transform result r (None: the
    coercion is impossible)."""
    if r is None:
        return ['null']
    if pd['type'] == 'boolean':
        return ['b', int(bool(r))]
    if is_nonfinite(r):
        return None if pd.get('integer') else canon(r)      # int(nan) / int(inf) raise: the write cannot be served
    q = exact(r)
    if pd.get('integer'):
        n = q.numerator // q.denominator if q >= 0 else -((-q.numerator) // q.denominator)
        return ['n', frac_tok(F(n))]
    return ['n', frac_tok(q)]


class C05(Prop):
    ID = 'C05'
    N_QUICK = 20000
    N_THOROUGH = 120000
    RULE = ('a case = one port (driver-defined with an instant or a slow driver, or a virtual port created through POST /ports) '
            'with a definition (type, min, max, step, integer, choices incl. bool/number collisions, enabled, '
            'writable, write transform, for about a fifth of the writable ports a value expression the port follows — over a '
            'source that is absent or disabled, so that it never evaluates; a share of degenerate non-well-formed ones) x 4..14 operations: value writes '
            '(grid points, off-grid neighbours, min/max edges +-eps, integer-valued floats, exponent forms, bools vs 0/1, '
            'huge/tiny magnitudes, null/strings/arrays/objects, NaN/Infinity tokens, literals beyond binary64), sequence '
            'writes (valid, one bad element, malformed shapes), bursts of 2-4 overlapping value writes, unknown port ids, '
            'enable/disable, time passing, redefinition of the port under the same id (PUT /ports or DELETE + POST) with '
            'values chosen against the old and the new definition. '
            'About one case in eight is a multi-step case on a port whose driver computes its attributes (writable, step; '
            'min/max/integer/choices before the first request): 6..16 operations mixing changes of what the driver declares, '
            'passes of the real polling loop core.main.update(), read-side states ok/SkipRead/PortReadError (the port is then '
            'not polled for 10 s), GET /ports, time passing up to 12 s, enable/disable, value writes and bursts chosen against '
            'the previous and the current declaration; a request is judged against what the driver declares once a polling '
            'pass has completed (port enabled) since the change. '
            'Non-trivial = at least one accepted and one refused request; distinct = distinct (port definition class, '
            'outcome list).')
    CORRESPONDENCE = ('ValueDomain.step (handleValue/handleSeq/validateValue/performWrite/flush) <-> '
                      'core.api.funcs.ports.patch_port_value / patch_port_sequence + BasePort.get_value_schema / '
                      'transform_and_write_value / set_sequence; for driver-computed attributes: Req.redefine d (no sequence '
                      'installed; Props.C05.declared_attributes_in_force) <-> the core.main.update() pass that drops '
                      'BasePort\'s attribute cache after the driver changed what it declares')
    TRUSTED = ['jsonschema Draft4 keywords type/minimum/maximum/enum are modelled, the library is trusted',
               'the write-transform expression is abstract in the model: its value on each request value is computed '
               'with the real parse().eval() (property C02) and handed to the model',
               'instrumented Port subclass (attributes set as core/vports.py does), fake request handler, virtual-time loop']
    ASSUMPTIONS = ['a JSON number is the binary64/int that json.loads gives, identified with the shortest decimal that '
                   'round-trips it (repr); literals that are not such a decimal or lie beyond +-1.8e308 are the known '
                   'finding C05-beyond-binary64',
                   'NaN/Infinity tokens are not JSON values: only model = code and purity of refusals are checked for them',
                   'choices, when declared, are the whole domain; a step without a min, or a step of 0, constrains nothing',
                   'the port driver\'s write_value succeeds; sequence repeat >= 1',
                   'a port may follow a value expression (value writes are accepted and delivered all the same, sequence '
                   'requests are refused with port-with-expression), but only one whose source is an absent or a disabled '
                   'port: its evaluation raises, so the port\'s own evaluations hand the driver nothing and every driver call '
                   'belongs to a request',
                   '202 (accepted, not applied right away) and 204 are both "accepted"',
                   'driver-computed attributes: what the driver declares is in force from the first polling pass '
                   '(core.main.update(), port enabled) that completes after the change; requests between the change and that '
                   'pass are neither judged nor compared; min/max/integer/choices do not change after the first value '
                   'request on the port (the code builds the value schema once per port object and keeps it — observed on the '
                   'unchanged code, not generated); such ports get value requests only (no sequences, no value expression)']

    # ---------------------------------------------------------------- life-cycle
    def setup(self):
        logging.disable(logging.CRITICAL)
        self.loop = WatchedLoop()
        asyncio.set_event_loop(self.loop)
        self.stalls = 0
        from qtoggleserver.conf import settings
        settings.persist.driver = 'qtoggleserver.drivers.persist.JSONDriver'
        settings.persist.file_path = None
        from qtoggleserver.core import main as core_main  # noqa: F401  (import order: main before ports)
        from qtoggleserver.core import ports as core_ports
        from qtoggleserver.core import api as core_api
        from qtoggleserver.core import expressions as core_expressions
        from qtoggleserver.core.api import schema as core_api_schema
        from qtoggleserver.core.api.funcs import ports as ports_funcs
        from qtoggleserver.utils import json as json_utils
        self.core_ports, self.core_api, self.core_expressions = core_ports, core_api, core_expressions
        self.ports_funcs, self.json_utils = ports_funcs, json_utils
        self.max_items = core_api_schema.PATCH_PORT_SEQUENCE['properties']['values']['maxItems']
        self.handler = FakeHandler(core_api.ACCESS_LEVEL_ADMIN)
        self.counter = 0

        from qtoggleserver.core import vports as core_vports
        self.core_vports = core_vports
        vcalls = self._vcalls = {}     # port id -> values handed to write_value(), in call order

        class VerifPort(core_ports.Port):
            def __init__(self, id_, type_, min_, max_, integer, step, choices, writable, latency_ms=0):
                super().__init__(id_)
                self._type = type_
                self._min = min_
                self._max = max_
                self._integer = integer
                self._step = step
                self._choices = choices
                self._writable = writable
                self.verif_latency_ms = latency_ms
                self.verif_value = None

            async def read_value(self):
                return self.verif_value

            async def write_value(self, value):
                vcalls.setdefault(self.get_id(), []).append(value)      # handed to the driver now
                if self.verif_latency_ms:
                    await asyncio.sleep(self.verif_latency_ms / 1000.0)  # a slow device (virtual time)
                self.verif_value = value

        self.port_cls = VerifPort
        self.core_main = core_main

        class DynPort(core_ports.Port):
            """A port whose driver COMPUTES its attributes: BasePort.get_attr() asks `attr_get_<name>()` /
            `attr_is_<name>()` first (core/ports.py), which is how a driver reports a write-protect switch, a resolution
            mode, a range that depends on the device's configuration. `verif_attrs` is what the driver declares right
            now; `verif_read` is the state of its read side: 'ok' (returns the last written value), 'skip' (SkipRead) or
            'fault' (PortReadError: the core stops polling the port for a while)."""

            def __init__(self, id_, type_, attrs, latency_ms=0, read_mode='ok'):
                super().__init__(id_)
                self._type = type_
                self.verif_attrs = dict(attrs)
                self.verif_latency_ms = latency_ms
                self.verif_read = read_mode
                self.verif_value = None

            async def attr_is_writable(self):
                return self.verif_attrs['writable']

            async def attr_get_min(self):
                return self.verif_attrs['min']

            async def attr_get_max(self):
                return self.verif_attrs['max']

            async def attr_get_step(self):
                return self.verif_attrs['step']

            async def attr_is_integer(self):
                return self.verif_attrs['integer']

            async def attr_get_choices(self):
                return self.verif_attrs['choices']

            async def read_value(self):
                if self.verif_read == 'fault':
                    raise core_ports.PortReadError('verif: the read side is down')
                if self.verif_read == 'skip':
                    raise core_ports.SkipRead()
                return self.verif_value

            async def write_value(self, value):
                vcalls.setdefault(self.get_id(), []).append(value)      # handed to the driver now
                if self.verif_latency_ms:
                    await asyncio.sleep(self.verif_latency_ms / 1000.0)
                self.verif_value = value

        self.dyn_cls = DynPort

        # ports created through the API (POST /ports, PUT /ports) are VirtualPorts: record what their driver method is
        # handed (the class's public write_value is wrapped once per worker process)
        orig_write = core_vports.VirtualPort.write_value

        async def recording_write(port, value):
            vcalls.setdefault(port.get_id(), []).append(value)
            return await orig_write(port, value)

        core_vports.VirtualPort.write_value = recording_write

    def teardown(self):
        self.loop.close()

    # ---------------------------------------------------------------- corpus
    def corpus(self):
        step01 = {'type': 'number', 'min': '0', 'max': '10', 'step': '0.1', 'integer': None, 'choices': None,
                  'enabled': True, 'writable': True, 'tw': None}
        intp = {'type': 'number', 'min': '0', 'max': '10', 'step': None, 'integer': True, 'choices': None,
                'enabled': True, 'writable': True, 'tw': None}
        doc = {'type': 'number', 'min': '1', 'max': '100', 'step': '5', 'integer': True, 'choices': ['2', '4'],
               'enabled': True, 'writable': True, 'tw': None}
        free = {'type': 'number', 'min': None, 'max': None, 'step': None, 'integer': None, 'choices': None,
                'enabled': True, 'writable': True, 'tw': None}
        return [
            # D9 (fixed-pending C05-step-grid): decimal steps in binary floating point
            {'port': step01, 'ops': [['value', True, '0.3'], ['value', True, '0.5'], ['value', True, '2'],
                                     ['value', True, '10'], ['value', True, '0.25'], ['value', True, '10.1']]},
            {'port': step01, 'ops': [['seq', True, '{"values": [0.3, 0.7], "delays": [100, 100], "repeat": 1}'],
                                     ['advance', 1001]]},
            # fixed-pending C05-integral-float: 5.0 / 1e1 on an integer port
            {'port': intp, 'ops': [['value', True, '5.0'], ['value', True, '1e1'], ['value', True, '5.5'],
                                   ['seq', True, '{"values": [1.0, 2], "delays": [0, 0], "repeat": 1}'], ['advance', 101]]},
            # fixed-pending C05-choices-step: the docstring port of core/ports.py refuses its own choices
            {'port': doc, 'ops': [['value', True, '2'], ['value', True, '4'], ['value', True, '6'], ['value', True, '1']]},
            # known C05-beyond-binary64: literals that are not binary64 values
            {'port': free, 'strict_text': True, 'ops': [['value', True, '1e400']]},
            {'port': free, 'strict_text': True, 'ops': [['value', True, '1' + '0' * 400]]},
            {'port': dict(free, max='10'), 'strict_text': True, 'ops': [['value', True, '10.000000000000000001']]},
            # a refused sequence request must not cancel the running one; a refused value changes nothing
            {'port': dict(step01, tw='MUL($, 2)'),
             'ops': [['seq', True, '{"values": [0.1, 0.2, 0.3], "delays": [100, 100, 100], "repeat": 2}'], ['advance', 101],
                     ['seq', True, '{"values": [0.1, 0.25], "delays": [100, 100], "repeat": 1}'], ['value', True, '11'],
                     ['advance', 201], ['disable'], ['value', True, '1'], ['enable'], ['value', True, '1'],
                     ['advance', 1001]]},
            # error order: invalid value wins over disabled / read-only; unknown port wins over everything
            {'port': dict(intp, enabled=False, writable=False),
             'ops': [['value', True, '11'], ['value', True, '10'], ['value', False, '11'], ['enable'], ['value', True, '10'],
                     ['seq', True, '{"values": [11], "delays": [0], "repeat": 1}'],
                     ['seq', True, '{"values": [1], "delays": [0], "repeat": 1}']]},
            # bool vs number, choices collisions
            {'port': {'type': 'number', 'min': None, 'max': None, 'step': None, 'integer': None,
                      'choices': ['1', '2.5', '0'], 'enabled': True, 'writable': True, 'tw': None},
             'ops': [['value', True, 'true'], ['value', True, '1'], ['value', True, '1.0'], ['value', True, 'false'],
                     ['value', True, '0.0'], ['value', True, '2.5'], ['value', True, '2'], ['value', True, '"1"']]},
            {'port': {'type': 'boolean', 'min': None, 'max': None, 'step': None, 'integer': None, 'choices': None,
                      'enabled': True, 'writable': True, 'tw': 'NOT($)'},
             'ops': [['value', True, 'true'], ['value', True, '1'], ['value', True, '0'], ['value', True, 'null'],
                     ['value', True, 'false']]},
            # transform failing to evaluate: 500, nothing written
            {'port': dict(free, tw='DIV(1, $)'), 'ops': [['value', True, '0'], ['value', True, '4']]},
            # overlapping requests: every accepted one reaches the driver with its own value (slow driver; simultaneous
            # submissions through a write transform)
            {'port': dict(intp, max='100'), 'latency': 50,
             'ops': [['burst', [[True, '10'], [True, '20'], [True, '30'], [True, '40']]],
                     ['burst', [[True, '1'], [True, '101'], [True, '2.0'], [False, '3']]]]},
            {'port': dict(free, tw='MUL($, 2)'), 'ops': [['burst', [[True, '1'], [True, '2.5'], [True, '3']]],
                                                          ['value', True, '4']]},
            # the port is redefined under the same id (backup restore, DELETE + POST): the definition in force decides
            {'port': dict(free, min='0', max='100'), 'virtual': True,
             'ops': [['value', True, '30'], ['redefine', 'put', dict(free, min='0', max='10')], ['value', True, '30'],
                     ['value', True, '10.5'], ['value', True, '7'],
                     ['redefine', 'delete-post', dict(free, min='0', max='1000', integer=True)], ['value', True, '300'],
                     ['value', True, '7.5']]},
            {'port': dict(free, choices=['1', '2', '3']), 'virtual': True,
             'ops': [['value', True, '3'], ['seq', True, '{"values": [1, 2], "delays": [100, 100], "repeat": 2}'],
                     ['redefine', 'put', dict(free, choices=['1', '5'])], ['value', True, '3'], ['value', True, '5'],
                     ['advance', 1001],
                     ['redefine', 'put', {'type': 'boolean', 'min': None, 'max': None, 'step': None, 'integer': None,
                                          'choices': None, 'enabled': True, 'writable': True, 'tw': 'NOT($)'}],
                     ['value', True, '1'], ['value', True, 'true']]},
            # a port that follows a value expression: value writes are accepted and delivered all the same (in-domain /
            # out-of-domain / disabled in the usual order); the sequence endpoint refuses the port, after its other tests
            {'port': dict(step01, expr='ADD($' + SRC_ABSENT + ', 1)', tw='MUL($, 2)'),
             'ops': [['value', True, '0.3'], ['value', True, '0.25'], ['seq', True, '{"values": [0.3], "delays": [100], "repeat": 1}'],
                     ['seq', True, '{"values": [0.25], "delays": [100], "repeat": 1}'], ['disable'], ['value', True, '0.3'],
                     ['seq', True, '{"values": [0.3], "delays": [100], "repeat": 1}'], ['enable'], ['value', True, '10'],
                     ['burst', [[True, '1'], [True, '2'], [True, '10.1']]], ['advance', 1001]]},
            {'port': dict(intp, expr='$' + SRC_DISABLED), 'latency': 50,
             'ops': [['value', True, '5'], ['value', True, '5.0'], ['value', True, '11'],
                     ['burst', [[True, '1'], [True, '2']]], ['seq', True, '{"values": [1, 2], "delays": [0, 0], "repeat": 1}']]},
            {'port': dict(free, min='0', max='100', expr='$' + SRC_DISABLED), 'virtual': True,
             'ops': [['value', True, '30'], ['seq', True, '{"values": [1], "delays": [100], "repeat": 1}'],
                     ['redefine', 'put', dict(free, min='0', max='10')], ['value', True, '7'],
                     ['seq', True, '{"values": [1, 2], "delays": [100, 100], "repeat": 1}'], ['advance', 301],
                     ['redefine', 'delete-post', dict(free, min='0', max='10', expr='IF(GT($' + SRC_ABSENT + ', 5), 1, 0)')],
                     ['value', True, '7'], ['value', True, '70'], ['seq', True, '{"values": [1], "delays": [100], "repeat": 1}']]},
            {'port': {'type': 'boolean', 'min': None, 'max': None, 'step': None, 'integer': None, 'choices': None,
                      'enabled': True, 'writable': True, 'tw': 'NOT($)', 'expr': 'NOT($' + SRC_DISABLED + ')'},
             'ops': [['value', True, 'true'], ['value', True, '1'], ['value', True, 'false'],
                     ['seq', True, '{"values": [true, false], "delays": [100, 100], "repeat": 1}']]},
            # NaN / Infinity tokens
            {'port': dict(free, min='0'), 'ops': [['value', True, 'NaN'], ['value', True, 'Infinity'],
                                                   ['value', True, '-Infinity']]},
            # driver-computed attributes (write-protect switch, resolution): one polling pass after the driver changed,
            # requests are judged by what it declares now — on a healthy port, on one whose reads are skipped, and on one
            # whose read side is failing (not polled for a while, the write side still works)
            *[{'port': valve, 'dyn': True, 'read': rd,
               'ops': [['value', True, '10'], ['fault', fl], ['poll'], ['value', True, '15'], ['get'],
                       ['attrs', dict(valve, step='20')], ['poll'], ['advance', 11], ['poll'], ['value', True, '35'],
                       ['value', True, '40'], ['get'], ['attrs', dict(valve, step='20', writable=False)], ['poll'],
                       ['value', True, '60'], ['advance', 12001], ['attrs', dict(valve, step='5')], ['get'],
                       ['value', True, '45'], ['poll'], ['value', True, '45']]}
              for valve in [dict(free, min='0', max='100', step='5')]
              for rd, fl in (('ok', 'ok'), ('skip', 'skip'), ('ok', 'fault'), ('fault', 'fault'))],
            # range / choices declared anew before the first request (the value schema is built by that request)
            {'port': dict(free, min='0', max='100'), 'dyn': True, 'read': 'fault',
             'ops': [['get'], ['attrs', dict(free, min='0', max='10')], ['poll'], ['value', True, '30'], ['value', True, '7'],
                     ['attrs', dict(free, min='0', max='10', writable=False)], ['get'], ['poll'], ['value', True, '7']]},
            {'port': dict(free, choices=['1', '2', '3']), 'dyn': True, 'read': 'fault',
             'ops': [['poll'], ['get'], ['attrs', dict(free, choices=['1', '5'])], ['poll'], ['value', True, '3'],
                     ['value', True, '5']]},
            # a polling pass that finds the port disabled does not look at it: the change is in force after the next one
            {'port': dict(free, min='0', max='100', step='5', enabled=False), 'dyn': True, 'read': 'ok',
             'ops': [['attrs', dict(free, min='0', max='100', step='5', enabled=False, writable=False)], ['poll'], ['enable'],
                     ['value', True, '10'], ['poll'], ['value', True, '10'], ['disable'], ['value', True, '10']]},
        ]

    # ---------------------------------------------------------------- generator
    @staticmethod
    def _dec(q):
        """A finite decimal rational -> plain JSON number text."""
        q = F(q)
        n, d = q.numerator, q.denominator
        k = 0
        while d % 10 == 0:
            d //= 10
            k += 1
        # d must now divide a power of 10
        m = 0
        while d != 1 and m < 400:
            if d % 2 == 0:
                d //= 2
                n *= 5
                m += 1
            elif d % 5 == 0:
                d //= 5
                n *= 2
                m += 1
            else:
                raise ValueError('not a finite decimal')
        k += m
        s = str(abs(n)).rjust(k + 1, '0')
        txt = (s[:-k] + '.' + s[-k:]) if k else s
        return ('-' if n < 0 else '') + txt

    def _restyle(self, rng, txt):
        """Other JSON spellings of the same number."""
        r = rng.random()
        neg = txt.startswith('-')
        body = txt[1:] if neg else txt
        if r < 0.6 or 'e' in txt or 'E' in txt:
            return txt
        if r < 0.7 and '.' not in body:
            return txt + '.0'
        if r < 0.78 and '.' in body:
            return txt + '0'
        if r < 0.9:
            q = F(txt)
            e = rng.choice([-2, -1, 1, 2, 3])
            try:
                return self._dec(q / F(10) ** e) + ('e' if rng.random() < 0.7 else 'E') + ('+' if e > 0 and rng.random() < 0.3 else '') + str(e)
            except ValueError:
                return txt
        if r < 0.95 and '.' not in body:
            return txt + 'e0'
        return txt

    def _gen_port(self, rng):
        r = rng.random()
        pd = {'type': 'number', 'min': None, 'max': None, 'step': None, 'integer': None, 'choices': None,
              'enabled': rng.random() < 0.9, 'writable': rng.random() < 0.9, 'tw': None}
        if r < 0.14:
            pd['type'] = 'boolean'
            if rng.random() < 0.25:
                pd['choices'] = rng.choice([['true', 'false'], ['true'], ['false', 'true', 'false']])
            if rng.random() < 0.35:
                pd['tw'] = rng.choice(BOOL_TW)
            if rng.random() < 0.12:      # degenerate definitions
                k = rng.choice(['integer', 'minstep', 'numchoices'])
                if k == 'integer':
                    pd['integer'] = True
                elif k == 'minstep':
                    pd['min'], pd['step'] = '0', rng.choice(['2', '1'])
                else:
                    pd['choices'] = ['true', '1', '0']
            if pd['writable'] and rng.random() < 0.22:
                pd['expr'] = rng.choice(BOOL_EXPR)
            return pd
        steps = ['0.1', '0.01', '0.25', '3', '1', '0.5', '5', '0.3', '0.001', '2.5', '0.2', '0.05', '1e-7', '0.7', '100',
                 '0', '-0.5', '0.125', '1e3']
        mins = ['0', '0', '0', '1', '-5', '0.5', '-0.3', '10', '0.05', '-100', '1e-3', '-1e6', '0.1', '2']
        spans = ['10', '1', '100', '0.9', '5', '1e6', '3', '0.3', '1000000000', '7.5']
        if rng.random() < 0.75:
            pd['min'] = rng.choice(mins)
        if rng.random() < 0.7:
            lo = F(pd['min']) if pd['min'] is not None else F(rng.choice(mins))
            pd['max'] = self._dec(lo + F(rng.choice(spans)))
            if rng.random() < 0.03:
                pd['max'] = self._dec(lo - 1)    # empty range
        if rng.random() < 0.65:
            pd['step'] = rng.choice(steps)
        if rng.random() < 0.3:
            pd['integer'] = rng.choice([True, True, True, False])
            if pd['integer'] and rng.random() < 0.8:
                # integer ports usually come with integral attributes
                for k in ('min', 'max', 'step'):
                    if pd[k] is not None:
                        pd[k] = str(int(F(pd[k]))) if F(pd[k]).denominator != 1 or 'e' in pd[k] else pd[k]
                if pd['step'] == '0' and rng.random() < 0.5:
                    pd['step'] = '1'
        if rng.random() < 0.2:
            pool = ['0', '1', '2', '2.5', '4', '10', '-1', '0.1', '0.3', '1.0', '1e1', '100', '0.5', '7']
            n = rng.choice([2, 2, 3, 4, 6])
            ch = [rng.choice(pool) for _ in range(n)]
            if pd['integer'] and rng.random() < 0.8:
                ch = [c for c in ch if F(c).denominator == 1] or ['1', '2']
            if rng.random() < 0.1:
                ch.append(rng.choice(['true', 'false']))       # degenerate: a boolean choice on a number port
            if rng.random() < 0.03:
                ch = []
            pd['choices'] = ch
        if rng.random() < 0.35:
            pd['tw'] = rng.choice(NUM_TW)
        for k in ('min', 'max', 'step'):
            if pd[k] is not None and rng.random() < 0.15:
                pd[k] = self._restyle(rng, pd[k])
        if pd['writable'] and rng.random() < 0.22:       # the port follows a value expression (writable ports only)
            pd['expr'] = rng.choice(NUM_EXPR)
        return pd

    def _gen_value(self, rng, pd, numeric_only=False):
        """JSON text of one request value, boundary-heavy with respect to the port definition."""
        r = rng.random()
        if not numeric_only:
            if r < 0.05:
                return rng.choice(['true', 'false'])
            if r < 0.10:
                return rng.choice(['null', '"5"', '"true"', '""', '[1]', '[]', '{}', '{"value": 1}', '"0.3"', '[true]'])
            if r < 0.12:
                return rng.choice(['NaN', 'Infinity', '-Infinity'])
        if pd['type'] == 'boolean':
            return rng.choice(['true', 'false', 'true', 'false', '0', '1', '1.0', '0.0', '2'])
        mn = F(pd['min']) if pd['min'] is not None else None
        mx = F(pd['max']) if pd['max'] is not None else None
        st = F(pd['step']) if pd['step'] is not None and F(pd['step']) != 0 else None
        base = mn if mn is not None else F(0)
        span = (mx - base) if mx is not None else F(50)
        cands = []
        r = rng.random()
        if pd['choices'] and r < 0.45:
            c = rng.choice(pd['choices'])
            if c in ('true', 'false'):
                return rng.choice([c, '1', '0'])
            q = F(c)
            r2 = rng.random()
            if r2 < 0.6:
                return self._restyle(rng, self._dec(q))
            return self._dec(q + rng.choice([F(1), F(-1), F(1, 10), F(1, 1000000)]))
        if st is not None and r < 0.55:
            # on-grid points, far ones included, and their close neighbours
            if span > 0:
                kmax = max(1, int(span / abs(st)))
            else:
                kmax = 5
            k = rng.choice([0, 1, 2, 3, 5, 7, 9, 10, 11, 33, 99, kmax, kmax - 1, kmax + 1, rng.randint(0, min(kmax + 2, 10 ** 6)),
                            -1, rng.randint(0, 200)])
            q = base + k * st
            r2 = rng.random()
            if r2 < 0.62:
                pass
            elif r2 < 0.75:
                q += st / rng.choice([2, 10, 4, 5])
            elif r2 < 0.85:
                q += rng.choice([F(1, 10 ** 9), -F(1, 10 ** 9), F(1, 10 ** 6), F(1, 1000)])
            elif r2 < 0.93:
                q += rng.choice([st, -st])   # neighbour grid point
            else:
                q = q + rng.choice([1, -1]) * st / 1000
            cands.append(q)
        elif r < 0.75:
            # range edges
            edge = rng.choice([x for x in (mn, mx) if x is not None] or [F(0)])
            eps = rng.choice([F(0), F(0), F(0), F(1), F(-1), F(1, 10), F(-1, 10), F(1, 10 ** 9), F(-1, 10 ** 9),
                              (st or F(1, 2)), -(st or F(1, 2)), F(1, 10 ** 12), -F(1, 10 ** 12)])
            cands.append(edge + eps)
        elif r < 0.9:
            # anywhere in (or a little around) the range, integers and decimals
            lo = base - 2
            width = span + 4 if span > 0 else F(10)
            if rng.random() < 0.5:
                cands.append(F(int(lo) + rng.randint(0, max(1, int(width)))))
            else:
                cands.append(lo + width * F(rng.randint(0, 1000), 1000))
        else:
            # magnitudes
            return rng.choice(['1e300', '-1e300', '1e-300', '123456789012345', '9007199254740993', '9007199254740992',
                               '1e22', '100000000000000000000', '-100000000000000000000', '1e15', '0.000001', '1e-7',
                               '4.9e-324', '1.7976931348623157e308', '-0', '-0.0', '0', '0.0', '1e2', '12345.678'])
        q = cands[0]
        try:
            txt = self._dec(q)
        except ValueError:
            txt = self._dec(F(round(q * 1000), 1000))
        if len(txt.replace('-', '').replace('.', '').lstrip('0')) > 15:
            # keep to decimals a binary64 identifies (<= 15 significant digits)
            txt = self._dec(F(round(q * 10 ** 6), 10 ** 6))
            if len(txt.replace('-', '').replace('.', '').lstrip('0')) > 15:
                txt = str(int(q))[:15]
        return self._restyle(rng, txt)

    def _gen_seq(self, rng, pd):
        r = rng.random()
        n = rng.choice([0, 1, 1, 2, 2, 3, 3, 4, 6])
        vals = []
        good_bias = rng.random() < 0.6
        for _ in range(n):
            v = self._gen_value(rng, pd, numeric_only=rng.random() < 0.9)
            if good_bias and pd['type'] == 'number' and rng.random() < 0.7:
                # try to produce an in-domain element so that whole sequences are accepted often enough
                for _ in range(4):
                    try:
                        x = json.loads(v)
                    except ValueError:
                        break
                    parsed = self._parse_port(pd, loads=json.loads)
                    if is_number(x) and not is_nonfinite(x) and in_domain(pd, parsed, x):
                        break
                    v = self._gen_value(rng, pd, numeric_only=True)
            vals.append(v)
        delays = [str(rng.choice([100, 100, 200, 300, 0, 500])) for _ in range(n)]
        rep = str(rng.choice([1, 1, 2, 3]))
        if r < 0.72:
            pass
        elif r < 0.76:
            delays = delays + ['100'] if rng.random() < 0.5 or not delays else delays[:-1]
        elif r < 0.79 and delays:
            delays[rng.randrange(len(delays))] = rng.choice(['1.5', 'true', '"100"', 'null', '100.0'])
        elif r < 0.82:
            rep = rng.choice(['1.5', 'true', '"1"', 'null', '1.0', '[1]'])
        elif r < 0.85:
            body = {'values': '[' + ', '.join(vals) + ']', 'delays': '[' + ', '.join(delays) + ']', 'repeat': rep}
            drop = rng.choice(['values', 'delays', 'repeat', 'extra'])
            if drop == 'extra':
                body['extra'] = '1'
            else:
                del body[drop]
            return '{' + ', '.join(f'"{k}": {v}' for k, v in body.items()) + '}'
        elif r < 0.88:
            return rng.choice(['[]', '5', 'null', '"x"', '{"values": 5, "delays": [], "repeat": 1}',
                               '{"values": [], "delays": {}, "repeat": 1}', '{"values": [[1]], "delays": [0], "repeat": 1}'])
        elif r < 0.9:
            big = self.max_items + 1 if hasattr(self, 'max_items') else 257
            vals = [vals[0] if vals else '1'] * big
            delays = ['0'] * big
        return '{"values": [' + ', '.join(vals) + '], "delays": [' + ', '.join(delays) + '], "repeat": ' + rep + '}'

    def _gen_good_value(self, rng, pd, tries=4):
        """A request value that is, more often than not, inside the port's domain."""
        v = self._gen_value(rng, pd, numeric_only=True)
        parsed = self._parse_port(pd, loads=json.loads)
        for _ in range(tries):
            try:
                x = json.loads(v)
            except ValueError:
                break
            if (isinstance(x, bool) or is_number(x)) and not is_nonfinite(x) and in_domain(pd, parsed, x):
                break
            v = self._gen_value(rng, pd, numeric_only=True)
        return v

    def _gen_burst(self, rng, pd):
        n = rng.choice([2, 2, 3, 3, 4])
        reqs = []
        for _ in range(n):
            known = rng.random() < 0.97
            if rng.random() < 0.8:
                reqs.append([known, self._gen_good_value(rng, pd)])
            else:
                reqs.append([known, self._gen_value(rng, pd)])
        return ['burst', reqs]

    def _virtualize(self, rng, pd):
        """Restrict a definition to what POST /ports accepts: writable, choices of at least two booleans/numbers."""
        pd = dict(pd, writable=True)
        if pd['choices'] is not None and len(pd['choices']) < 2:
            pd['choices'] = (pd['choices'] + ['1', '2'])[:2] if pd['type'] == 'number' else ['true', 'false']
        return pd

    def _gen_redefinition(self, rng, pd):
        """Another definition for the same port id: usually a variation of the current one (narrower/wider range, other
        step, integer flag, other choices, other type), sometimes an unrelated one."""
        r = rng.random()
        if r < 0.15:
            return self._virtualize(rng, dict(self._gen_port(rng), enabled=True))
        npd = dict(pd, enabled=True)
        if pd['type'] == 'boolean':
            if rng.random() < 0.6:
                npd = dict(self._gen_port(rng), enabled=True)
                for _ in range(5):
                    if npd['type'] == 'number':
                        break
                    npd = dict(self._gen_port(rng), enabled=True)
            else:
                npd['tw'] = rng.choice(BOOL_TW + [None])
            if rng.random() < 0.2:
                npd['expr'] = None if npd.get('expr') else rng.choice(NUM_EXPR if npd['type'] == 'number' else BOOL_EXPR)
            return self._virtualize(rng, npd)
        k = rng.choice(['max', 'max', 'min', 'range', 'step', 'integer', 'choices', 'choices', 'type', 'tw', 'nochoices'])
        lo = F(pd['min']) if pd['min'] is not None else F(0)
        hi = F(pd['max']) if pd['max'] is not None else lo + 100
        if k == 'max':
            npd['max'] = self._dec(lo + (hi - lo) * rng.choice([F(1, 10), F(1, 2), F(10), F(2)])) if hi > lo else self._dec(lo + 10)
        elif k == 'min':
            npd['min'] = self._dec(lo + rng.choice([F(1), F(-10), (hi - lo) / 2 if hi > lo else F(2), F(1, 2)]))
        elif k == 'range':
            npd['min'], npd['max'] = self._dec(lo + (hi - lo) / 4), self._dec(lo + (hi - lo) / 2)
        elif k == 'step':
            npd['step'] = rng.choice([None, '0.1', '0.5', '1', '2', '3', '0.25', '5'])
            if npd['min'] is None:
                npd['min'] = '0'
        elif k == 'integer':
            npd['integer'] = not pd['integer']
        elif k == 'choices':
            pool = ['0', '1', '2', '3', '5', '2.5', '10', '0.5', '7', '4']
            if pd['choices']:
                keep = [c for c in pd['choices'] if c not in ('true', 'false') and rng.random() < 0.5]
                npd['choices'] = (keep + [rng.choice(pool), rng.choice(pool)])[:4]
            else:
                npd['choices'] = [rng.choice(pool) for _ in range(rng.choice([2, 3]))]
        elif k == 'nochoices':
            npd['choices'] = None
        elif k == 'type':
            npd = {'type': 'boolean', 'min': None, 'max': None, 'step': None, 'integer': None, 'choices': None,
                   'enabled': True, 'writable': True, 'tw': rng.choice([None, None, 'NOT($)'])}
        else:
            npd['tw'] = rng.choice(NUM_TW + [None])
        if rng.random() < 0.2:
            npd['expr'] = None if npd.get('expr') else rng.choice(NUM_EXPR if npd['type'] == 'number' else BOOL_EXPR)
        return self._virtualize(rng, npd)

    def _gen_attr_change(self, rng, pd, requested):
        """What the driver declares next: the write-protect switch, the resolution (step); before the first request also
        the range, the integer flag or the choices (afterwards the value schema is kept, see run_case)."""
        npd = dict(pd)
        kinds = ['writable', 'writable', 'writable', 'step', 'step', 'step', 'both']
        if not requested and pd['type'] == 'number':
            kinds += ['max', 'min', 'integer', 'choices', 'nochoices', 'range']
        k = rng.choice(kinds)
        if pd['type'] == 'boolean' and k in ('step', 'both'):
            k = 'writable'
        lo = F(pd['min']) if pd['min'] is not None else F(0)
        hi = F(pd['max']) if pd['max'] is not None else lo + 100
        if k in ('writable', 'both'):
            npd['writable'] = not pd['writable']
        if k in ('step', 'both'):
            cur = pd['step']
            pool = ['0.1', '0.5', '1', '2', '3', '0.25', '5', '20', '10', '0.2', None]
            if cur is not None and F(cur) != 0 and rng.random() < 0.6:
                # coarser or finer grid over the same origin: old grid points that are off the new grid, and conversely
                try:
                    pool = [self._dec(F(cur) * m) for m in (2, 4, 3, 10, F(1, 2), F(1, 5))]
                except ValueError:
                    pass
            npd['step'] = rng.choice([x for x in pool if x != cur] or ['7'])
            if npd['step'] is not None and npd['min'] is None and not requested:
                npd['min'] = '0'
        if k == 'max':
            npd['max'] = self._dec(lo + (hi - lo) * rng.choice([F(1, 10), F(1, 2), F(10), F(2)])) if hi > lo else self._dec(lo + 10)
        elif k == 'min':
            npd['min'] = self._dec(lo + rng.choice([F(1), F(-10), (hi - lo) / 2 if hi > lo else F(2), F(1, 2)]))
        elif k == 'range':
            npd['min'], npd['max'] = self._dec(lo + (hi - lo) / 4), self._dec(lo + (hi - lo) / 2)
        elif k == 'integer':
            npd['integer'] = not pd['integer']
        elif k == 'choices':
            pool = ['0', '1', '2', '3', '5', '2.5', '10', '0.5', '7', '4']
            keep = [c for c in (pd['choices'] or []) if c not in ('true', 'false') and rng.random() < 0.5]
            npd['choices'] = (keep + [rng.choice(pool), rng.choice(pool)])[:4]
        elif k == 'nochoices':
            npd['choices'] = None
        return npd

    def _gen_dyn(self, rng, pd):
        """A multi-step case on a port whose driver computes its attributes: the declared attributes change over time,
        interleaved with passes of the real polling loop, read faults, attribute reads through the API and value writes."""
        pd = dict(pd, enabled=rng.random() < 0.93, writable=rng.random() < 0.8)
        pd.pop('expr', None)
        case = {'port': pd, 'dyn': True, 'read': rng.choice(['ok', 'ok', 'skip', 'fault', 'fault'])}
        if rng.random() < 0.15:
            case['latency'] = rng.choice([20, 50])
        ops = []
        cur, old, requested, en = pd, None, False, pd['enabled']
        pending = False     # a change of range / integer / choices is declared but not yet in force

        def poll():
            nonlocal pending
            ops.append(['poll'])        # (a pass that finds the port disabled changes nothing for it)
            if en:
                pending = False

        n = rng.randint(6, 16)
        while len(ops) < n:
            r = rng.random()
            if r < 0.20:
                if rng.random() < 0.4:
                    ops.append(['get'])
                old, cur = cur, self._gen_attr_change(rng, cur, requested)
                ops.append(['attrs', cur])
                if any(cur.get(k) != old.get(k) for k in ('min', 'max', 'integer', 'choices')):
                    pending = True
                if rng.random() < 0.3:
                    ops.append(['get'])
                if rng.random() < 0.88:
                    poll()
                    if rng.random() < 0.3:
                        poll()
            elif r < 0.30:
                ops.append(['fault', rng.choice(['fault', 'fault', 'fault', 'ok', 'skip'])])
                if rng.random() < 0.85:
                    poll()                      # a failing read is noticed here; the port is not polled for a while
            elif r < 0.37:
                poll()
            elif r < 0.42:
                ops.append(['get'])
            elif r < 0.47:
                ops.append(['advance', rng.choice([1, 101, 501, 1001, 5001, 10001, 12001])])
            elif r < 0.50:
                ops.append(['enable'])
                en = True
            elif r < 0.52:
                ops.append(['disable'])
                en = False
            else:
                if pending and not requested:
                    # the first request (it builds the value schema) comes after the range / choices came into force
                    if not en:
                        ops.append(['enable'])
                        en = True
                    poll()
                # values on the previous grid / in the previous range are the telling ones after a change
                ref = old if (old is not None and rng.random() < 0.5) else cur
                known = rng.random() < 0.97
                if rng.random() < 0.12:
                    ops.append(self._gen_burst(rng, ref))
                elif rng.random() < 0.75:
                    ops.append(['value', known, self._gen_good_value(rng, ref)])
                else:
                    ops.append(['value', known, self._gen_value(rng, ref)])
                requested = True
        case['ops'] = ops
        return case

    def gen(self, rng, tier):
        case = self._gen_classic(rng, tier)
        # about one case in eight is replaced by a multi-step case on a port with driver-computed attributes; the choice
        # and the case are drawn from a generator derived from the classic case, so that the stream of classic cases of a
        # seed stays what it was
        import random
        sub = random.Random('dyn/' + json.dumps(case, sort_keys=True))
        if sub.random() < 0.125:
            return self._gen_dyn(sub, case['port'])
        return case

    def _gen_classic(self, rng, tier):
        pd = self._gen_port(rng)
        kind = rng.random()
        case = {'port': pd}
        virtual = kind < 0.14
        slow = 0.14 <= kind < 0.28
        if virtual:
            pd = case['port'] = self._virtualize(rng, pd)
            case['virtual'] = True
        if slow:
            case['latency'] = rng.choice([20, 50, 100])
        nops = rng.randint(4, 14)
        ops = []
        cur, old = pd, None
        redefs = 0
        for i in range(nops):
            r = rng.random()
            known = rng.random() < 0.96
            if virtual and redefs < 2 and i >= 1 and r < 0.16:
                old, cur = cur, self._gen_redefinition(rng, cur)
                ops.append(['redefine', rng.choice(['put', 'put', 'delete-post']), cur])
                redefs += 1
                continue
            # after a redefinition, values chosen with respect to the OLD definition are the telling ones
            ref = old if (old is not None and rng.random() < 0.5) else cur
            if slow:
                if r < 0.45:
                    ops.append(self._gen_burst(rng, ref))
                elif r < 0.9:
                    ops.append(['value', known, self._gen_value(rng, ref) if rng.random() < 0.5 else self._gen_good_value(rng, ref)])
                elif r < 0.95:
                    ops.append(['enable'])
                else:
                    ops.append(['disable'])
                continue
            if r < 0.60:
                if old is not None and rng.random() < 0.5:
                    ops.append(['value', known, self._gen_good_value(rng, ref)])
                else:
                    ops.append(['value', known, self._gen_value(rng, ref)])
            elif r < 0.68:
                ops.append(self._gen_burst(rng, ref))
            elif r < 0.84:
                ops.append(['seq', known, self._gen_seq(rng, ref)])
            elif r < 0.88:
                ops.append(['enable'])
            elif r < 0.91:
                ops.append(['disable'])
            else:
                ops.append(['advance', 100 * rng.choice([0, 1, 1, 2, 3, 5, 10]) + 1])
        case['ops'] = ops
        return case

    def shrink_candidates(self, case):
        ops = case['ops']
        n = len(ops)
        for size in (n // 2, 2, 1):
            if size < 1:
                continue
            for i in range(0, n, size):
                cand = ops[:i] + ops[i + size:]
                if cand and len(cand) < n:
                    yield dict(case, ops=cand)
        for i, op in enumerate(ops):
            if op[0] == 'burst' and len(op[1]) > 2:
                for k in range(len(op[1])):
                    yield dict(case, ops=ops[:i] + [['burst', op[1][:k] + op[1][k + 1:]]] + ops[i + 1:])
        pd = case['port']
        for k, v in (('expr', None), ('tw', None), ('choices', None), ('integer', None), ('max', None), ('step', None), ('min', None),
                     ('enabled', True), ('writable', True)):
            if pd.get(k) != v:
                yield dict(case, port=dict(pd, **{k: v}))
        if case.get('latency'):
            yield dict(case, latency=0)

    # ---------------------------------------------------------------- running
    def _parse_port(self, pd, loads=None):
        loads = loads or self.json_utils.loads
        out = {}
        for k in ('min', 'max', 'step'):
            out[k] = None if pd[k] is None else loads(pd[k])
        out['choices'] = None if pd['choices'] is None else [loads(c) for c in pd['choices']]
        return out

    @staticmethod
    def _seq_shape(body):
        """(values, delays, repeat) if the body has the three keys with list values/delays, else None."""
        if not isinstance(body, dict) or set(body.keys()) != {'values', 'delays', 'repeat'}:
            return None
        if not isinstance(body['values'], list) or not isinstance(body['delays'], list):
            return None
        return body['values'], body['delays'], body['repeat']

    async def _tout(self, expr, pid, v):
        """Outcome of the port's write transform on v, computed with the real expression evaluator: model token and
        Python result."""
        if expr is None:
            return '-', ('val', v)
        if not (isinstance(v, (bool, int, float))):
            return 'e', ('error', None)
        try:
            ctx = self.core_expressions.EvalContext({pid: v}, int(self.loop.time() * 1000) + 1)
            r = await expr.eval(ctx)
        except self.core_expressions.ValueUnavailable:
            return 'u', ('unavailable', None)
        except Exception:
            return 'e', ('error', None)
        if not isinstance(r, (bool, int, float)):
            return 'e', ('error', None)
        if isinstance(r, int) and not isinstance(r, bool) and abs(r) >= 2 ** 1024:
            return 'e', ('error', None)
        return 'v' + jval_tok(r), ('val', r)

    async def _snapshot(self, port, calls):
        try:
            js = await port.to_json()
            js = json.dumps(js, sort_keys=True, default=str)
        except Exception as e:  # noqa
            js = 'to_json failed: ' + type(e).__name__
        return [js, repr(getattr(port, 'verif_value', None)), port.is_enabled(), len(calls)]

    def _doc(self, pid, pd):
        """The POST /ports (or PUT /ports entry) body that declares a virtual port with definition pd."""
        parsed = self._parse_port(pd)
        doc = {'id': pid, 'type': pd['type']}
        for k in ('min', 'max', 'step'):
            if parsed[k] is not None:
                doc[k] = parsed[k]
        if pd['integer'] is not None:
            doc['integer'] = pd['integer']
        if parsed['choices'] is not None:
            doc['choices'] = [{'value': c} for c in parsed['choices']]
        return doc

    async def _api(self, func, *args):
        try:
            await func(self.handler, *args)
            return 'ok'
        except self.core_api.APIAccepted:
            return 'ok'
        except self.core_api.APIError as e:
            return f'err:{e.status}:{e.code}'
        except Exception as e:  # the web layer answers 500 for any other exception
            return f'err:500:exception:{type(e).__name__}'

    @staticmethod
    def _has_expr(pd):
        """The port follows a value expression (the attribute only exists on writable ports)."""
        return bool(pd.get('expr')) and bool(pd.get('writable', True))

    def _driver_attrs(self, pd):
        """What the driver of a DynPort declares for the definition pd (Python values, as an attribute getter returns
        them)."""
        parsed = self._parse_port(pd)
        return {'min': parsed['min'], 'max': parsed['max'], 'step': parsed['step'], 'integer': pd['integer'],
                'choices': None if parsed['choices'] is None else [{'value': c} for c in parsed['choices']],
                'writable': bool(pd['writable'])}

    async def _prepare(self, pid, pd, virtual, parsed_ops, start, dyn=False):
        """Bring the (new) port to its initial state: write transform, enabled flag; compute the outcomes of the write
        transform (real expression evaluator) for every value requested while this definition is in force."""
        port = self.core_ports.get(pid)
        await port.enable()
        expr = None
        if pd['tw']:
            if virtual:
                r = await self._api(self.ports_funcs.patch_port, pid, {'transform_write': pd['tw']})
                if r != 'ok':
                    raise RuntimeError(f'cannot set transform_write: {r}')
            else:
                await port.set_attr('transform_write', pd['tw'])
            expr = self.core_expressions.parse(pid, pd['tw'], role=self.core_expressions.ROLE_TRANSFORM_WRITE)
        if self._has_expr(pd):
            if self.core_ports.get(SRC_DISABLED) is None:      # the source that stays disabled (one per worker process)
                await self.core_ports.load([{
                    'driver': self.port_cls, 'id_': SRC_DISABLED, 'type_': 'number', 'min_': None, 'max_': None,
                    'integer': None, 'step': None, 'choices': None, 'writable': True}])
            if self.core_ports.get(SRC_DISABLED).is_enabled() or self.core_ports.get(SRC_ABSENT) is not None:
                raise RuntimeError('the expression sources are not what the harness assumes')
            if virtual:
                r = await self._api(self.ports_funcs.patch_port, pid, {'expression': pd['expr']})
                if r != 'ok':
                    raise RuntimeError(f'cannot set expression: {r}')
            else:
                await port.set_attr('expression', pd['expr'])
            if not await port.get_attr('expression'):
                raise RuntimeError('the expression was not installed')
        touts = {}
        for op, body in parsed_ops[start:]:
            if op[0] == 'redefine':
                break
            vs = []
            if op[0] == 'value' and body[0]:
                vs = [body[1]]
            elif op[0] == 'burst':
                vs = [b[1] for b in body if b[0]]
            elif op[0] == 'seq' and body[0] and self._seq_shape(body[1]):
                vs = body[1]['values']
            for v in vs:
                k = jval_tok(v)
                if k not in touts:
                    touts[k] = await self._tout(expr, pid, v)
        if dyn:
            # the port was created writable (a write transform can only be set on a writable port); from here on the
            # driver declares the case's definition, and one polling pass makes it the definition in force
            port.verif_attrs = self._driver_attrs(pd)
            await self.core_main.update()
        if not pd.get('enabled', True):
            await port.disable()
        return touts

    async def _real(self, case, parsed_ops):
        pd = case['port']
        virtual = bool(case.get('virtual'))
        latency = int(case.get('latency') or 0)
        self.counter += 1
        pid = f'vp{self.counter}'
        calls = self._vcalls[pid] = []
        dyn = bool(case.get('dyn'))
        if virtual:
            r = await self._api(self.ports_funcs.post_ports, self._doc(pid, pd))
            if r != 'ok':
                raise RuntimeError(f'POST /ports refused the port definition: {r}')
        elif dyn:
            await self.core_ports.load([{
                'driver': self.dyn_cls, 'id_': pid, 'type_': pd['type'],
                'attrs': dict(self._driver_attrs(pd), writable=True), 'latency_ms': latency,
                'read_mode': case.get('read') or 'ok'}])
        else:
            parsed = self._parse_port(pd)
            choices = None if parsed['choices'] is None else [{'value': c} for c in parsed['choices']]
            await self.core_ports.load([{
                'driver': self.port_cls, 'id_': pid, 'type_': pd['type'], 'min_': parsed['min'], 'max_': parsed['max'],
                'integer': pd['integer'], 'step': parsed['step'], 'choices': choices, 'writable': pd['writable'],
                'latency_ms': latency}])
        out = []
        try:
            touts = await self._prepare(pid, pd, virtual, parsed_ops, 0, dyn=dyn)
            await asyncio.sleep(1e-6)
            calls.clear()
            for idx, (op, body) in enumerate(parsed_ops):
                port = self.core_ports.get(pid)
                before = len(calls)
                snap = await self._snapshot(port, calls) if port is not None else None
                res = 'ok'
                try:
                    if op[0] == 'value':
                        if not body[0]:
                            res = 'malformed-body'
                        else:
                            res = await self._api(self.ports_funcs.patch_port_value,
                                                  pid if op[1] is True else 'verif_no_such_port', body[1])
                    elif op[0] == 'burst':
                        # the requests are submitted together and overlap (each awaits its own write)
                        coros = [self._api(self.ports_funcs.patch_port_value, pid if k is True else 'verif_no_such_port', b[1])
                                 for (k, _), b in zip(op[1], body) if b[0]]
                        got = list(await asyncio.gather(*coros))
                        res = [got.pop(0) if b[0] else 'malformed-body' for b in body]
                    elif op[0] == 'seq':
                        if not body[0]:
                            res = 'malformed-body'
                        else:
                            res = await self._api(self.ports_funcs.patch_port_sequence,
                                                  pid if op[1] is True else 'verif_no_such_port', body[1])
                    elif op[0] == 'enable':
                        await port.enable()
                    elif op[0] == 'disable':
                        await port.disable()
                    elif op[0] == 'advance':
                        await asyncio.sleep(op[1] / 1000.0)
                    elif op[0] == 'attrs':
                        port.verif_attrs = self._driver_attrs(op[1])     # the driver declares other attributes from now on
                    elif op[0] == 'fault':
                        port.verif_read = op[1]                          # the state of the driver's read side
                    elif op[0] == 'poll':
                        await self.core_main.update()                    # one pass of the real polling loop
                    elif op[0] == 'get':
                        r = await self._api(self.ports_funcs.get_ports)  # GET /ports: every attribute is read
                        if r != 'ok':
                            raise RuntimeError(f'GET /ports failed: {r}')
                    elif op[0] == 'redefine':
                        if op[1] == 'put':
                            res = await self._api(self.ports_funcs.put_ports, [dict(self._doc(pid, op[2]), virtual=True)])
                        else:
                            res = await self._api(self.ports_funcs.delete_port, pid)
                            if res == 'ok':
                                res = await self._api(self.ports_funcs.post_ports, self._doc(pid, op[2]))
                        if res == 'ok' and self.core_ports.get(pid) is not None:
                            touts = await self._prepare(pid, op[2], True, parsed_ops, idx + 1)
                        else:
                            res = 'redefine-failed:' + str(res)
                except Exception as e:
                    if op[0] in ('enable', 'disable', 'advance', 'attrs', 'fault', 'poll', 'get'):
                        raise
                    res = f'err:500:exception:{type(e).__name__}'
                await asyncio.sleep(1e-6)     # lets everything that is ready run (virtual time: nothing else is due)
                port2 = self.core_ports.get(pid)
                snap2 = await self._snapshot(port2, calls) if port2 is not None else None
                out.append({'res': res, 'calls': list(calls[before:]), 'unchanged': snap == snap2, 'touts': touts})
            # drain
            before = len(calls)
            await asyncio.sleep(BIG_DRAIN_MS / 1000.0)
            await asyncio.sleep(1e-6)
            out.append({'res': 'ok', 'calls': list(calls[before:]), 'unchanged': True, 'touts': touts})
        finally:
            port = self.core_ports.get(pid)
            if port is not None:
                try:
                    await port.disable()
                except Exception:
                    pass
                await port.remove()
                if virtual:
                    await self.core_vports.remove(pid)
            self._vcalls.pop(pid, None)
        return out

    # canonical response classes -------------------------------------------------------
    @staticmethod
    def _canon_real(op, res):
        if res == 'ok' or res == 'malformed-body':
            return res
        _, status, code = res.split(':', 2)
        if status == '500':
            return 'err:500'
        if op[0] == 'seq' and status == '400' and code in ('invalid-request', 'invalid-field', 'missing-field'):
            return 'err:400:invalid'
        return f'err:{status}:{code}'

    @staticmethod
    def _canon_model(op, rep):
        if rep.startswith('ok'):
            return 'ok'
        code = rep.split(' ', 1)[1]
        if code == 'unexpected-error':
            return 'err:500'
        if code == 'no-such-port':
            return 'err:404:no-such-port'
        if op[0] == 'seq' and code in ('invalid-request', 'invalid-field'):
            return 'err:400:invalid'
        return f'err:400:{code}'

    def _port_line(self, pd, parsed, word='port'):
        def rt(x):
            return '-' if x is None else frac_tok(exact(x))
        ch = parsed['choices']
        if ch is None:
            cs = '-'
        elif not ch:
            cs = '[]'
        else:
            cs = ','.join(('b1' if c else 'b0') if isinstance(c, bool) else 'n' + frac_tok(exact(c)) for c in ch)
        return (f'{word} {"b" if pd["type"] == "boolean" else "n"} {rt(parsed["min"])} {rt(parsed["max"])} '
                f'{rt(parsed["step"])} {1 if pd["integer"] else 0} {cs} {1 if pd["enabled"] else 0} '
                f'{1 if pd["writable"] else 0} {1 if pd["tw"] else 0} {1 if self._has_expr(pd) else 0}')

    def _model(self, case, parsed_ops, real, driver):
        pd = case['port']
        if case.get('virtual'):
            pd = dict(pd, writable=True)
        assert driver.ask(f'begin {self.max_items} 1 1 1') == 'ok'
        rep = driver.ask(self._port_line(pd, self._parse_port(pd)))
        if rep != 'ok':
            raise AssertionError(f'model refused the port line: {rep}')
        out = []

        def ask(op, line):
            rep = driver.ask(line)
            if rep == 'bad-op':
                raise AssertionError(f'model refused line {line[:200]!r}')
            calls = []
            if rep.startswith('ok'):
                body_ = rep[2:].strip()
                calls = [canon_tok(t) for t in body_.split(',')] if body_ else []
            return self._canon_model(op, rep), calls

        # a port with driver-computed attributes: the model is told the new definition at the moment it comes into force
        # (the first polling pass, with the port enabled, after the driver changed — see `run_case`)
        en = bool(pd.get('enabled', True))
        declared = None
        for idx, (op, body) in enumerate(parsed_ops + [(['advance', BIG_DRAIN_MS], None)]):
            touts = real[idx]['touts']
            if op[0] == 'attrs':
                declared = op[1]
                out.append(('ok', []))
            elif op[0] in ('fault', 'get'):
                out.append(('ok', []))
            elif op[0] == 'poll':
                if declared is not None and en:
                    npd = dict(declared, enabled=True)
                    declared = None
                    out.append(ask(op, self._port_line(npd, self._parse_port(npd), 'redefine')))
                else:
                    out.append(('ok', []))
            elif op[0] == 'value':
                if not body[0]:
                    out.append(('malformed-body', []))
                    continue
                k = jval_tok(body[1])
                out.append(ask(op, f'value {1 if op[1] else 0} {k} {touts[k][0]}'))
            elif op[0] == 'burst':
                # overlapping requests: the model serves them one after the other, in submission order
                resps, calls = [], []
                for (known, _), b in zip(op[1], body):
                    if not b[0]:
                        resps.append('malformed-body')
                        continue
                    k = jval_tok(b[1])
                    r, c = ask(['value'], f'value {1 if known else 0} {k} {touts[k][0]}')
                    resps.append(r)
                    calls += c
                out.append((resps, calls))
            elif op[0] == 'seq':
                if not body[0]:
                    out.append(('malformed-body', []))
                    continue
                shape = self._seq_shape(body[1])
                if shape is None:
                    # wrong top-level shape: not a model input; the code must refuse (unknown port first)
                    out.append(('err:400:invalid' if op[1] else 'err:404:no-such-port', []))
                    continue
                values, delays, rep_ = shape
                if isinstance(rep_, int) and not isinstance(rep_, bool) and rep_ <= 0:
                    raise AssertionError('endless sequences are not generated')
                parts = []
                for v in values:
                    k = jval_tok(v)
                    parts += [k, touts[k][0]]
                line = (f'seq {1 if op[1] else 0} {jval_tok(rep_)} {len(values)} ' + ' '.join(parts) +
                        f' {len(delays)} ' + ' '.join(jval_tok(d) for d in delays)).replace('  ', ' ').strip()
                out.append(ask(op, line))
            elif op[0] in ('enable', 'disable'):
                en = op[0] == 'enable'
                out.append(ask(op, op[0]))
            elif op[0] == 'redefine':
                npd = dict(op[2], enabled=True, writable=True)       # a port created through the API starts enabled
                out.append(ask(op, self._port_line(npd, self._parse_port(npd), 'redefine')))
                if not op[2].get('enabled', True):
                    ask(['disable'], 'disable')
            else:
                out.append(ask(op, f'advance {op[1]}'))
        return out

    @staticmethod
    def _on_alarm(signum, frame):
        raise Stalled(f'more than {CASE_WALL_SECONDS} s of wall clock')

    def _run_bounded(self, coro):
        """Run the real side of a case under the watchdog. A stalled case is cancelled (its clean-up still runs, bounded
        too) and reported; after three stalls the worker gives up rather than work on a polluted hub."""
        if self.loop.rewind():
            self.rewinds = getattr(self, 'rewinds', 0) + 1
        task = self.loop.create_task(coro)
        old_alarm = signal.signal(signal.SIGALRM, self._on_alarm)
        signal.setitimer(signal.ITIMER_REAL, CASE_WALL_SECONDS, 5)
        self.loop.watch(CASE_LOOP_ITERATIONS, CASE_VIRTUAL_SECONDS)
        try:
            res = self.loop.run_until_complete(task)
            self.max_iterations = max(getattr(self, 'max_iterations', 0), CASE_LOOP_ITERATIONS - self.loop.verif_iterations_left)
            return res
        except Stalled as e:
            self.stalls += 1
            stalled = e
        finally:
            self.loop.unwatch()
            signal.setitimer(signal.ITIMER_REAL, 0)
            signal.signal(signal.SIGALRM, old_alarm)
        # abort the case: cancel its task and let the cancellation and the port removal run, bounded again
        task.cancel()
        self.loop.watch(20000, 60)
        try:
            self.loop.run_until_complete(asyncio.gather(task, return_exceptions=True))
        except Stalled:
            pass
        finally:
            self.loop.unwatch()
        if self.stalls >= 3:
            from harness.core import Broken
            raise Broken(f'three cases stalled in this worker, last: {stalled}')
        return stalled

    def _parse_body(self, text):
        try:
            return (True, self.json_utils.loads(text))
        except ValueError:
            return (False, None)

    def run_case(self, case, driver):
        ops = case['ops']
        virtual = bool(case.get('virtual'))
        # parse the bodies with the repository's own JSON parser, as the web handler does
        if not hasattr(self, 'json_utils'):
            raise RuntimeError('setup() not run')
        parsed_ops = []
        for op in ops:
            if op[0] in ('value', 'seq'):
                parsed_ops.append((op, self._parse_body(op[2])))
            elif op[0] == 'burst':
                parsed_ops.append((op, [self._parse_body(t) for _, t in op[1]]))
            else:
                parsed_ops.append((op, None))
        real = self._run_bounded(self._real(case, parsed_ops))
        if isinstance(real, Stalled):
            return (Failure('correspondence', f'the case did not complete on the real code: {real} (a request or the final '
                            f'drain never finished); the model answers every request', real=str(real)),
                    {'tags': ['stalled'], 'key': None, 'observed': str(real)})
        old_alarm = signal.signal(signal.SIGALRM, self._on_alarm)
        signal.setitimer(signal.ITIMER_REAL, CASE_WALL_SECONDS, 5)
        try:
            model = self._model(case, parsed_ops, real, driver)
        finally:
            signal.setitimer(signal.ITIMER_REAL, 0)
            signal.signal(signal.SIGALRM, old_alarm)

        strict = bool(case.get('strict_text'))
        tags = set()
        fail = None
        legit = []          # canonical deliveries that accepted sequence requests entitle the driver to see
        n_ok = n_rej = 0

        # ---- the definition in force (rebound at every redefinition)
        pd = parsed = wf = touts = prev = None
        enabled = True

        def in_force(npd, first):
            nonlocal pd, parsed, wf, touts, prev, enabled, legit
            prev = None if first else (pd, parsed, wf)
            pd = dict(npd, writable=True) if virtual else npd
            parsed = self._parse_port(pd)
            wf = well_formed(pd, parsed)
            enabled = pd.get('enabled', True)
            legit = []
            tags.add(('port:' if first else 'redefined:') + pd['type'] + (':int' if pd['integer'] else '') +
                     (':choices' if pd['choices'] is not None else '') + (':step' if pd['step'] is not None else '') +
                     (':tw' if pd['tw'] else '') + (':expr' if self._has_expr(pd) else ''))
            if not wf:
                tags.add('port:degenerate')

        in_force(case['port'], True)
        # ---- a port whose driver computes its attributes (case['dyn']). What "the port's declared domain / writable" means
        # at the time of a request, as established on the unchanged code:
        #   * BasePort keeps computed attributes in a per-iteration cache which core.main.update() drops for every ENABLED
        #     port at every pass, whether or not the port is then read (also while its read side is failing and it is not
        #     polled). So what the driver declares is in force for the API from the first polling pass that completes,
        #     with the port enabled, after the driver changed. Between the change and that pass the API may see either
        #     (depending on what happened to be cached): such requests are not judged and not compared with the model.
        #   * the value schema (min, max, integer, choices) is built once per port object, at the first value/sequence
        #     request, and kept (BasePort._value_schema): a change of those four after the first request never reaches it.
        #     Such histories are not generated; if one arises (shrinking) the requests after it are not judged either.
        #   * writable and step are read again for every request.
        dyn = bool(case.get('dyn'))
        declared = None         # what the driver declares since the last 'attrs' op while it is not yet in force
        declared_at = None
        requested = False       # a value request was made: the value schema exists
        undecided = False       # the value schema may have been built from attributes that were not in force
        skip_cmp = set()
        in_force_note = ''
        SCHEMA_ATTRS = ('min', 'max', 'integer', 'choices')
        if dyn:
            tags.add('port:dyn')
            tags.add('dyn:read:' + (case.get('read') or 'ok'))
            if any(op[0] in ('seq', 'redefine') for op in ops) or virtual or self._has_expr(case['port']):
                raise AssertionError('a case with driver-computed attributes has value requests only')

        def rebind(npd, idx):
            nonlocal pd, parsed, wf, prev, in_force_note
            prev = (pd, parsed, wf)
            changed = [k for k in ('writable', 'step') + SCHEMA_ATTRS if npd.get(k) != pd.get(k)]
            pd = npd
            parsed = self._parse_port(pd)
            wf = well_formed(pd, parsed)
            in_force_note = (f' (the driver declares {", ".join(f"{k}={pd.get(k)!r}" for k in changed) or "the same attributes"} '
                             f'since op {declared_at}; a polling pass completed at op {idx})')
            for k in changed:
                tags.add('dyn:in-force:' + k)
            if not wf:
                tags.add('port:degenerate')

        if virtual:
            tags.add('port:virtual')
        if case.get('latency'):
            tags.add('driver:slow')

        def expected_delivery(v):
            kind, r = touts[jval_tok(v)][1]
            if kind == 'error':
                return None
            if kind == 'unavailable':
                return ['null']
            return coerce_spec(pd, r)

        def dom(v, text=None):
            """in-domain?, or None when the value is outside what the oracle judges."""
            if is_nonfinite(v):
                if strict and text is not None:
                    return in_domain(pd, parsed, 1.0, q=F(text))      # an overflowed literal: judge its exact value
                return None
            if is_number(v) and strict and text is not None:
                return in_domain(pd, parsed, v, q=F(text))
            return in_domain(pd, parsed, v)

        def beyond(v, text):
            try:
                if is_nonfinite(v) or (isinstance(v, int) and not isinstance(v, bool) and abs(v) >= 2 ** 1024):
                    return True
                return is_number(v) and F(text) != exact(v)
            except (ValueError, ZeroDivisionError):
                return False

        def take_legit(cc):
            hit = next((i for i, l in enumerate(legit) if same_delivery(l, cc)), None)
            if hit is not None:
                legit.pop(hit)
            return hit is not None

        def judge_value(idx, known, text, v, res, where_calls):
            """accept-iff part of the oracle for one value request; returns (failure or None, accepted, expected
            delivery or None, judged?)."""
            nonlocal n_ok, n_rej
            rc = self._canon_real(['value'], res)
            accepted = rc == 'ok'
            tags.add(f'value:{rc}')
            if self._has_expr(pd):
                tags.add(f'value-on-port-with-expression:{rc}')
            n_ok += accepted
            n_rej += not accepted
            where = ''
            f = None
            d = dom(v, text) if wf else None
            if beyond(v, text):
                where = 'beyond-binary64'
                tags.add('value:beyond-binary64')
            if d is None:
                tags.add('value:not-judged')
                return None, accepted, None, False, where
            if not is_nonfinite(v):
                tags.add('dom:' + domain_class(pd, parsed, v))
                if prev is not None and prev[2] and in_domain(prev[0], prev[1], v) != d:
                    tags.add('redefined:domain-differs-from-old')
            if d and pd['tw']:
                tags.add('tw:' + touts[jval_tok(v)][1][0])
            exp = expected_delivery(v) if d else None
            should = bool(known) and enabled and pd['writable'] and d
            if should and exp is None:
                # the write transform does not evaluate on this value: the request cannot be served
                if accepted:
                    f = Failure('property', f'op {idx}: accepted although the write transform fails on {text}',
                                real=real, where=where)
            elif accepted != should:
                why = ('in-domain value refused' + (' (the port follows the expression ' + repr(pd['expr']) + ': that is no '
                                                    'ground for refusing a value write)' if self._has_expr(pd) else '')
                       if should else 'accepted although ' +
                       ('the port does not exist' if not known else 'the port is disabled' if not enabled else
                        'the port is read-only' if not pd['writable'] else 'the value is outside the domain' +
                        (' of the definition in force' if prev is not None else '')) + (in_force_note if dyn else ''))
                f = Failure('property', f'op {idx}: value {text} -> {res}: {why}', real=real, where=where)
            if dyn and prev is not None and d is not None:
                old_should = bool(known) and enabled and prev[0]['writable'] and prev[2] and in_domain(prev[0], prev[1], v)
                if old_should != should:
                    tags.add('dyn:request-telling-old-from-new:' + rc)
            if strict and is_number(v) and pd['tw'] is None and exp is not None:
                exp = ['n', frac_tok(F(text))]
            return f, accepted, exp, True, where

        for idx, (op, body) in enumerate(parsed_ops):
            ob = real[idx]
            touts = ob['touts']
            if op[0] == 'enable':
                enabled = True
                continue
            if op[0] == 'disable':
                enabled = False
                legit = []
                continue
            if op[0] == 'redefine':
                tags.add('redefine:' + op[1])
                if ob['calls'] and fail is None:
                    fail = Failure('property', f'op {idx}: the driver was called while the port was redefined', real=real)
                in_force(op[2], False)
                continue
            if op[0] == 'attrs':
                last = declared if declared is not None else pd
                ch = [k for k in ('writable', 'step') + SCHEMA_ATTRS if op[1].get(k) != last.get(k)]
                tags.add('dyn:attrs:' + (','.join(ch) or 'same'))
                if requested and any(k in SCHEMA_ATTRS for k in ch):
                    undecided = True
                declared, declared_at = op[1], idx
                if ob['calls'] and fail is None:
                    fail = Failure('property', f'op {idx}: the driver was called with no request', real=real)
                continue
            if op[0] in ('poll', 'fault', 'get'):
                tags.add('dyn:' + op[0] + (':' + op[1] if op[0] == 'fault' else ''))
                if op[0] == 'poll' and declared is not None and enabled:
                    rebind(declared, idx)
                    declared = None
                if ob['calls'] and fail is None:
                    fail = Failure('property', f'op {idx}: the driver was called with no request', real=real)
                continue
            if dyn and op[0] in ('value', 'burst'):
                if declared is not None and not requested and any(declared.get(k) != pd.get(k) for k in SCHEMA_ATTRS):
                    undecided = True
                requested = True
                if undecided or declared is not None:
                    # not judged (see above); a refusal still must not reach the driver
                    skip_cmp.add(idx)
                    tags.add('dyn:request-not-judged:' + ('value-schema-kept' if undecided else 'before-polling-pass'))
                    rs = ob['res'] if op[0] == 'burst' else [ob['res']]
                    if all(self._canon_real(['value'], r) != 'ok' for r in rs) and ob['calls'] and fail is None:
                        fail = Failure('property', f'op {idx} {op[:2]}: refused ({rs}) but the driver was called with '
                                       f'{[canon(c) for c in ob["calls"]]}', real=real)
                    continue
                tags.add('dyn:request-judged')
            if op[0] == 'advance':
                for c in (ob['calls'] if wf else []):
                    cc = canon(c)
                    if not take_legit(cc) and fail is None:
                        fail = Failure('property', f'op {idx}: the driver was handed {cc} which no accepted sequence '
                                       f'request entitles it to', real=real)
                continue
            if op[0] == 'burst':
                tags.add(f'burst:{len(op[1])}')
                exps, judged_all, acc = [], True, 0
                for (known, text), b, res in zip(op[1], body, ob['res']):
                    if not b[0]:
                        continue
                    f, accepted, exp, judged, _ = judge_value(idx, known, text, b[1], res, None)
                    if f is not None and fail is None:
                        fail = f
                    judged_all = judged_all and judged
                    acc += accepted
                    if accepted and exp is not None:
                        exps.append(exp)
                if acc >= 2:
                    tags.add('burst:overlapping-accepted')
                if wf and judged_all and fail is None:
                    # every accepted request hands the driver its own value: one call each, none merged or dropped
                    got = [canon(c) for c in ob['calls']]
                    rest = list(exps)
                    bad = None
                    for g in got:
                        hit = next((i for i, e in enumerate(rest) if same_delivery(e, g)), None)
                        if hit is None:
                            bad = g
                            break
                        rest.pop(hit)
                    if bad is not None or rest or len(got) != acc:
                        fail = Failure('property', f'op {idx}: {acc} overlapping value requests {[t for _, t in op[1]]} were '
                                       f'accepted ({ob["res"]}) but the driver was handed {got}; expected one call per '
                                       f'accepted request: {exps} (write transform {pd["tw"]!r}, then coercion)', real=real)
                if acc == 0 and fail is None and (ob['calls'] or not ob['unchanged']):
                    fail = Failure('property', f'op {idx}: every request of the burst was refused but the driver was called or '
                                   f'the port\'s observable state changed', real=real)
                continue
            if not body[0]:
                tags.add('malformed-body')
                continue
            rc = self._canon_real(op, ob['res'])
            accepted = rc == 'ok'
            # ---- a refusal never reaches the driver and changes nothing
            if not accepted and fail is None:
                if ob['calls']:
                    fail = Failure('property', f'op {idx} {op[:2]}: refused ({rc}) but the driver was called with '
                                   f'{[canon(c) for c in ob["calls"]]}', real=real)
                elif not ob['unchanged']:
                    fail = Failure('property', f'op {idx} {op[:2]}: refused ({rc}) but the port\'s observable state changed',
                                   real=real)
            if op[0] == 'value':
                f, accepted, exp, judged, where = judge_value(idx, op[1], op[2], body[1], ob['res'], None)
                if f is not None and fail is None:
                    fail = f
                if judged and accepted and fail is None:
                    got = [canon(c) for c in ob['calls']]
                    if exp is None or len(got) != 1 or not same_delivery(got[0], exp):
                        fail = Failure('property', f'op {idx}: value {op[2]} accepted but the driver was handed {got}, '
                                       f'expected exactly [{exp}] (write transform {pd["tw"]!r}, then coercion)',
                                       real=real, where=where)
                # the order of refusals (which error) is part of the correspondence, not of the oracle
            else:
                tags.add(f'seq:{rc}')
                n_ok += accepted
                n_rej += not accepted
                shape = self._seq_shape(body[1])
                if shape is None:
                    tags.add('seq:malformed-shape')
                    if accepted and fail is None:
                        fail = Failure('property', f'op {idx}: malformed sequence body accepted', real=real)
                    continue
                values, delays, rep_ = shape
                shape_ok = (len(values) <= self.max_items and len(delays) <= self.max_items and
                            all(isinstance(x, (bool, int, float)) for x in values) and
                            all(isinstance(x, int) and not isinstance(x, bool) for x in delays) and
                            isinstance(rep_, int) and not isinstance(rep_, bool) and len(values) == len(delays))
                ds = [dom(v) for v in values] if wf else [None]
                if accepted:
                    if ob['calls'] and fail is None and not (values and delays and shape_ok):
                        fail = Failure('property', f'op {idx}: driver called by a sequence request without values', real=real)
                    # what this sequence entitles the driver to see (a new sequence replaces the running one)
                    legit = []
                    if shape_ok:
                        for _ in range(max(rep_, 0)):
                            for v in values:
                                e = expected_delivery(v)
                                if e is not None:
                                    legit.append(e)
                    for c in (ob['calls'] if wf else []):
                        cc = canon(c)
                        if not take_legit(cc) and fail is None:
                            fail = Failure('property', f'op {idx}: the driver was handed {cc}, not a value of this sequence',
                                           real=real)
                if None in ds:
                    tags.add('seq:not-judged')
                else:
                    # (a port that follows a value expression takes no sequence: the sequence endpoint's own rule)
                    should = bool(op[1]) and enabled and pd['writable'] and shape_ok and all(ds) and not self._has_expr(pd)
                    if self._has_expr(pd):
                        tags.add(f'seq-on-port-with-expression:{rc}')
                    if accepted != should and fail is None:
                        why = ('every value in the domain, yet refused' if should else 'accepted although ' +
                               ('the port does not exist' if not op[1] else 'the body is malformed' if not shape_ok else
                                'a value is outside the domain' if not all(ds) else 'the port is disabled' if not enabled
                                else 'the port is read-only' if not pd['writable'] else 'the port follows an expression'))
                        fail = Failure('property', f'op {idx}: sequence {op[2][:120]} -> {ob["res"]}: {why}', real=real)
        # the final drain
        for c in (real[-1]['calls'] if wf else []):
            cc = canon(c)
            if not take_legit(cc) and fail is None:
                fail = Failure('property', f'drain: the driver was handed {cc} which no accepted sequence request entitles '
                               f'it to', real=real)

        # ---- correspondence: response class and driver calls, op by op
        def canon_entry(op, ob):
            calls = [canon(c) for c in ob['calls']]
            if op[0] in ('value', 'seq'):
                return [self._canon_real(op, ob['res']), calls]
            if op[0] == 'burst':
                # concurrent requests: the order in which the driver serves them is not part of this property
                return [[self._canon_real(['value'], r) for r in ob['res']], sorted(calls, key=json.dumps)]
            if op[0] == 'redefine':
                return [ob['res'], calls]
            return ['ok', calls]

        all_ops = parsed_ops + [(['advance', 0], None)]
        real_c = [canon_entry(op, ob) for (op, _), ob in zip(all_ops, real)]
        model_c = [[m[0], sorted(m[1], key=json.dumps) if op[0] == 'burst' else m[1]] for (op, _), m in zip(all_ops, model)]
        if fail is None:
            for i, (a, b) in enumerate(zip(real_c, model_c)):
                if i in skip_cmp:
                    continue
                same_calls = len(a[1]) == len(b[1]) and all(same_delivery(x, y) for x, y in zip(a[1], b[1]))
                if not same_calls and all_ops[i][0][0] == 'burst' and len(a[1]) == len(b[1]):
                    rest = list(b[1])     # multiset comparison up to binary64 identification
                    for x in a[1]:
                        hit = next((k for k, y in enumerate(rest) if same_delivery(x, y)), None)
                        if hit is None:
                            break
                        rest.pop(hit)
                    same_calls = not rest
                if a[0] != b[0] or not same_calls:
                    opd = ops[i] if i < len(ops) else ['drain']
                    fail = Failure('correspondence', f'first difference at op {i} {str(opd)[:160]}: real {a} model {b}',
                                   real=real_c, model=model_c)
                    break
        for _, calls in real_c:
            if calls:
                tags.add('driver-called')
        key = None
        if n_ok and n_rej:
            key = json.dumps([sorted(t for t in tags if t.startswith(('port:', 'redefined:', 'driver:'))),
                              [r[0] for r in real_c]])
        return fail, {'tags': sorted(tags), 'key': key, 'observed': real_c[:6]}

    def known_match(self, finding, case, failure):
        if finding.get('id') == 'C05-beyond-binary64':
            if failure.kind != 'property' or failure.where != 'beyond-binary64':
                return False
            # the (shrunk) case must still contain a literal that is not a binary64 value
            for op in case['ops']:
                if op[0] == 'value':
                    try:
                        v = json.loads(op[2])
                        if is_nonfinite(v) or (isinstance(v, int) and not isinstance(v, bool) and abs(v) >= 2 ** 1024) or \
                                (is_number(v) and F(op[2]) != exact(v)):
                            return True
                    except (ValueError, ZeroDivisionError):
                        pass
            return False
        return False


PROP = C05
