"""C20 — backup then restore reproduces the same configuration.

Real side: one real hub per worker process, booted in-process with the repo's startup.init_* sequence (in-memory JSON
store, virtual time, two static instrumented ports, slaves enabled). A case = (source history A, target history B,
a document corruption): run A through the API functions, GET /ports, /device, /devices (the backup documents), run B
(the hub is now in another state), PUT /device, /devices, /ports with the source documents, GET again.
Oracle: the documents after the restore equal the source documents (volatile attributes, values of ports with an
expression and password hashes excepted; passwords must be the TARGET's). Then a deliberately invalid document is PUT:
the error must name the failing entry, and afterwards a value change still produces a value-change event (a registered
core.events.Handler) and core.main.update() still polls.
Model side: QtVerif.Model.Backup.putPorts via Driver/C20.lean on the abstracted document (which entries are acceptable):
same outcome (ok / error naming the same entry), same set of ports afterwards, switches on.
GET/PUT /peripherals: the hub has one static peripheral (settings.peripherals) and, per case, non-static ones added through
POST /peripherals (drivers of harness/periph_c20.py: named / unnamed with an explicit id / unnamed with neither -> auto id;
with and without parameters; boards carry ports whose attributes are edited). The backup includes GET /peripherals, the
restore PUT /peripherals (before PUT /ports: the ports of the peripherals must exist when their attributes are applied).
Oracle: GET /peripherals after == the backup document (list equality), the peripheral ports are exactly those of the
document's entries, a corrupted document (unknown driver / missing parameter / duplicate id / duplicate name in the k-th
entry) is refused naming the entry, polling and events work afterwards. Model: Peripherals.putPeripherals via the driver.
"""
import asyncio
import copy
import hashlib
import json
import logging

from harness.core import Failure, Prop
from harness.props import c07 as c07mod

VOLATILE_DEVICE = c07mod.VOLATILE_DEVICE
STATIC = c07mod.STATIC + [
    {'port_id': 'lp3', 'type_': 'boolean', 'writable': True, 'initial': None},     # a relay
    {'port_id': 'lp4', 'type_': 'number', 'writable': True, 'initial': None},      # a dimmer
]
WRITABLE_STATIC = {'lp1': 'number', 'lp3': 'boolean', 'lp4': 'number'}
VPORT_LIMIT = 6           # settings.core.virtual_ports of the hub under test: low, so that restores run near the limit
SLAVE_PREFIX_IDS = ['v1', 'slv1_light', 'slv12.fan', 'slv1x']     # ids having a slave's name as a proper prefix
OTHER_IDS = ['w1', 'w2', 'w3']
STATIC_PERIPHERAL = {'driver': 'harness.periph_c20.Beacon', 'name': 'fixed'}      # settings.peripherals of the hub under test
BOARD, BEACON = 'harness.periph_c20.Board', 'harness.periph_c20.Beacon'
P_NAMES = ['boiler', 'pump', 'shed', 'garden']
P_IDS = ['attic_board', 'cellar.io', 'b-7']


def pports(entry):
    """ids of the ports that an entry of a peripherals document (drivers of harness/periph_c20.py) stands for"""
    if entry.get('driver') != BOARD or not isinstance(entry.get('address'), int):
        return []
    pre = (entry['name'] + '.') if entry.get('name') else ''
    return [f'{pre}relay_{entry["address"]:02x}_{i}' for i in range(int(entry.get('channels', 1)))]


def perr(e):
    """outcome of a refused PUT /peripherals: API error (status, code, entry named) or a bare exception"""
    from qtoggleserver.core import api as core_api
    name = type(e).__name__
    if isinstance(e, core_api.APIError):
        code = e.code
        kind = 'nodrv' if code == 'no-such-driver' else 'dup' if code == 'duplicate-peripheral' else 'ctor'
        return {'how': 'api', 'status': e.status, 'code': code, 'kind': kind, 'index': e.params.get('index'),
                'named': e.params.get('id') or e.params.get('name')}
    kind = 'nodrv' if name == 'NoSuchDriver' else 'dup' if name == 'DuplicatePeripheral' else 'ctor'
    return {'how': 'exc', 'exc': name, 'kind': kind, 'index': None, 'named': None}


class C20(Prop):
    ID = 'C20'
    N_QUICK = 400
    N_THOROUGH = 6000
    RULE = ('pairs (source history, target history) of API operations on the real hub (virtual ports of all definitions, '
            'every modifiable attribute incl. special-character strings, nested expressions that may refer to ports '
            'created later in the document, inverse transform pairs, values, device names/passwords, disabled slaves with '
            'pending edits; virtual port ids that have a slave device\'s name as a proper prefix; a hub limit of 6 virtual '
            'ports with source + target together above it), backup = GET x3 on the source, restore = PUT x3 on the differently '
            'configured target, then the same restore a second time; non-virtual writable ports (relay, dimmer) whose enabled '
            'flag, value and attributes differ between source and target, with expressions between them in opposite directions '
            '(2-cycles, chains), diamonds among virtual ports entered dependent-first, a sequence running on a target port; a '
            'full-update event must follow an accepted PUT /ports; then corrupted documents for PUT /ports, PUT /devices '
            '(k-th entry: missing host/port/scheme, wrong types) and PUT /device, each followed by the polling/event probe; one '
            'corrupted document (wrong attribute type / unparsable expression / bad definition in the k-th entry); '
            'peripherals (70% of the cases; one static peripheral from the settings on every hub): 1-4 non-static ones POSTed on '
            'the source — named, unnamed with an explicit id, unnamed with neither (auto id), name and id both given; relay '
            'boards with 1-2 ports whose attributes (enabled, tag, display_name, driver-defined hold) and values are edited, and '
            'parameterless port-less beacons; nested/optional parameters — the target deletes some, edits the ports of the rest '
            '(persisted), adds others incl. the same name/id with another board; backup = + GET /peripherals, restore = PUT '
            '/device, /peripherals, /devices, /ports (twice); then a corrupted peripherals document (k-th entry: unknown driver, '
            'missing constructor argument, value refused by the driver, id of an earlier entry, name of an earlier entry) followed '
            'by the polling/event probe; '
            'non-trivial: source and target differ in >= 1 port set member and >= 1 attribute and the source has an '
            'expression; distinct = distinct source documents')
    CORRESPONDENCE = ('Backup.putPorts/putBody/restoreOn <-> core/api/funcs/ports.py put_ports (+ add_virtual_port, '
                      'set_port_attrs); restore_roundtrip is checked as GET-after-PUT == GET-before on the real hub; '
                      'Peripherals.putPeripherals <-> peripherals/api/funcs.py put_peripherals (+ peripherals.add/remove, '
                      'Peripheral.__init__/to_json): outcome (ok / which entry failed and how), registry afterwards in order '
                      '(id, static, name, parameters) and which peripherals have their ports, for the restore and for the '
                      'corrupted document')
    TRUSTED = ['in-process hub (startup.init_* sequence, in-memory JSON store, virtual time); instrumented static ports']
    ASSUMPTIONS = ['source and target run the same static configuration (same settings.ports)',
                   'values are compared for enabled ports without expression whose transforms are mutually inverse',
                   'slave devices are disabled (no network)',
                   'peripheral drivers are the two of harness/periph_c20.py (init_ports never fails); the model\'s auto id is '
                   'not compared (GET documents always carry the id); a bare exception from PUT /peripherals is the known '
                   'finding C20-put-peripherals-failing-entry-unnamed: asserted by one corpus case, tagged elsewhere',
                   'password hashes are not part of a backup: the target keeps its own']

    def setup(self):
        from harness import vloop, boot_c07
        logging.disable(logging.CRITICAL)
        self.loop = vloop.new_loop()
        self.b = boot_c07
        self.events = []
        self.loop.run_until_complete(self._boot())

    async def _boot(self):
        from qtoggleserver import startup
        from qtoggleserver.conf import settings
        from qtoggleserver.core import events as core_events
        startup.logger = logging.getLogger('qtoggleserver')
        settings.persist.driver = 'qtoggleserver.drivers.persist.JSONDriver'
        settings.persist.file_path = None
        settings.ports = [dict(driver='harness.ports_c07.LoggingPort', **sp) for sp in STATIC]
        settings.slaves.enabled = True
        settings.frontend.enabled = False
        settings.core.virtual_ports = VPORT_LIMIT
        settings.peripherals = [dict(STATIC_PERIPHERAL)]
        from harness import periph_c20
        self.pc = periph_c20
        for f in ('init_loop', 'init_system', 'init_persist', 'init_peripherals', 'init_events', 'init_sessions',
                  'init_history', 'init_device', 'init_webhooks', 'init_reverse', 'init_ports', 'init_slaves', 'init_main'):
            await getattr(startup, f)()
        outer = self

        class Rec(core_events.Handler):
            async def handle_event(self, event):
                outer.events.append(event.get_type())
        core_events.register_handler(Rec())

    # ------------------------------------------------------------------ cases
    def corpus(self):
        g = c07mod.C07()
        c2 = g.corpus()[1]
        return [
            {'canon': c2['canon'], 'xf': c2['xf'], 'A': c2['phases'][0], 'corrupt': ['type', 1],
             'B': [['del', 'v1'], ['add', {'id': 'v4', 'type': 'number'}], ['patch', 'v2', {'expression': '', 'tag': 'b'}],
                   ['patch', 'lp1', {'gain': 9, 'enabled': False}], ['dev', {'display_name': 'B', 'admin_password': 'other'}]]},
            # expression referring to a port that comes later in the document; target empty
            {'canon': [['e', 'ADD($v2, 1)', 'ADD($v2, 1)']], 'xf': [], 'corrupt': ['expr', 0],
             'A': [['add', {'id': 'v2', 'type': 'number'}], ['add', {'id': 'a1', 'type': 'number'}],
                   ['patch', 'a1', {'expression': 'ADD($v2, 1)'}], ['val', 'v2', 4]], 'B': [['del', 'a1'], ['del', 'v2']]},
            # local virtual ports whose ids begin with the name of a slave device
            {'canon': [], 'xf': [], 'corrupt': ['none', 0],
             'A': [['sput', [g._slave_doc('garage', 1, {'name': 'garage', 'flags': 'f'})]],
                   ['add', {'id': 'garage_light', 'type': 'boolean'}], ['add', {'id': 'garage2.fan', 'type': 'number'}],
                   ['add', {'id': 'kitchen', 'type': 'number'}], ['patch', 'garage_light', {'tag': 'g'}]],
             'B': [['del', 'garage_light'], ['sput', []]]},
            # non-virtual writable ports enabled with a value in the backup, disabled (other value) on the target
            {'canon': [['e', 'NOT($lp3)', 'NOT($lp3)']], 'xf': [], 'corrupt': ['none', 0],
             'A': [['patch', 'lp3', {'enabled': True, 'tag': 'relay'}], ['val', 'lp3', True],
                   ['patch', 'lp4', {'enabled': True, 'gain': 3}], ['val', 'lp4', 40],
                   ['patch', 'lp1', {'enabled': True}], ['val', 'lp1', 12]],
             'B': [['val', 'lp3', False], ['val', 'lp4', 0], ['patch', 'lp3', {'enabled': False}],
                   ['patch', 'lp4', {'enabled': False, 'gain': 1}], ['val', 'lp1', 5]]},
            # stale target expressions: opposite-direction references between the same non-virtual ports
            {'canon': [['e', '$lp4', '$lp4'], ['e', '$lp1', '$lp1']], 'xf': [], 'corrupt': ['none', 0],
             'A': [['patch', 'lp1', {'expression': '$lp4'}]],
             'B': [['patch', 'lp1', {'expression': ''}], ['patch', 'lp4', {'expression': '$lp1'}]]},
            {'canon': [['e', x, x] for x in ('$lp3', '$lp4', '$lp1')], 'xf': [], 'corrupt': ['none', 0],
             'A': [['patch', 'lp1', {'expression': '$lp3'}], ['patch', 'lp3', {'expression': '$lp4'}]],
             'B': [['patch', 'lp1', {'expression': ''}], ['patch', 'lp3', {'expression': ''}],
                   ['patch', 'lp4', {'expression': '$lp3'}], ['patch', 'lp3', {'expression': '$lp1'}]]},
            # a diamond entered dependent-first; a sequence running on a target port
            {'canon': [['e', 'ADD($v1, $v2)', 'ADD($v1, $v2)'], ['e', '$v1', '$v1']], 'xf': [], 'corrupt': ['none', 0],
             'A': [['add', {'id': i, 'type': 'number'}] for i in ('v1', 'v2', 'v3')] +
                  [['patch', 'v3', {'expression': 'ADD($v1, $v2)'}], ['patch', 'v2', {'expression': '$v1'}],
                   ['patch', 'lp4', {'enabled': True}], ['val', 'lp4', 40]],
             'B': [['seq', 'lp4', {'values': [3, 9], 'delays': [400, 400], 'repeat': 0}]]},
            # corrupted PUT /devices and PUT /device documents with slaves present
            {'canon': [], 'xf': [], 'corrupt': ['type', 0], 'corrupt_devices': ['nohost', 1], 'corrupt_device': 'type',
             'A': [['sput', [g._slave_doc('slv1', 1, {'name': 'slv1', 'flags': 'f'}),
                             g._slave_doc('slv2', 2, {'name': 'slv2', 'flags': 'f'})]], ['add', {'id': 'v1', 'type': 'number'}]],
             'B': [['sdel', 'slv2']]},
            # source and target together exceed the virtual port limit, each alone does not; restore twice
            {'canon': [], 'xf': [], 'corrupt': ['none', 0],
             'A': [['add', {'id': f'v{i}', 'type': 'number'}] for i in (1, 2, 3)],
             'B': [['add', {'id': f'w{i}', 'type': 'boolean'}] for i in (1, 2, 3)]},
            # peripherals: named / explicit id / auto id; the target lost two and has another one. The corrupted document
            # (unknown driver in a later entry) is the witness of the known finding (bare exception, entry not named)
            {'canon': [], 'xf': [], 'corrupt': ['none', 0], 'A': [], 'B': [], 'corrupt_periph': ['nodrv', 2],
             'assert_periph_reject': True,
             'PA': [['padd', {'driver': BOARD, 'name': 'boiler', 'address': 0x20}],
                    ['padd', {'driver': BOARD, 'id': 'attic_board', 'address': 0x21}],
                    ['padd', {'driver': BOARD, 'address': 0x22}]],
             'PPA': [['patch', 'boiler.relay_20_0', {'enabled': True, 'tag': 'heat', 'hold': 3}], ['val', 'boiler.relay_20_0', True],
                     ['patch', 'relay_22_0', {'display_name': 'Attic', 'hold': 1}]],
             'PB': [['pdel#', 2], ['pdel#', 1], ['padd', {'driver': BOARD, 'name': 'garden', 'address': 0x30}]],
             'PPB': [['patch', 'boiler.relay_20_0', {'enabled': False, 'tag': 'b', 'hold': 0, 'persisted': True}]]},
            # the target re-uses a name and an explicit id for other boards; parameterless peripherals; name and id both given
            {'canon': [], 'xf': [], 'corrupt': ['type', 2], 'A': [], 'B': [], 'corrupt_periph': ['dupid', 4],
             'PA': [['padd', {'driver': BOARD, 'name': 'pump', 'id': 'other_id', 'address': 0x23, 'channels': 2,
                              'opts': {'b': 1, 'a': {'z': [1, 2], 'y': None}}}],
                    ['padd', {'driver': BEACON}], ['padd', {'driver': BEACON, 'id': 'b-7', 'name': None}],
                    ['padd', {'driver': BOARD, 'id': 'cellar.io', 'address': 0x24, 'label': 'x'}]],
             'PPA': [['patch', 'pump.relay_23_1', {'enabled': True, 'hold': 5}], ['val', 'pump.relay_23_1', True],
                     ['patch', 'relay_24_0', {'enabled': True, 'tag': 'c'}]],
             'PB': [['pdel#', 3], ['pdel#', 0], ['padd', {'driver': BOARD, 'name': 'pump', 'address': 0x31}],
                    ['padd', {'driver': BOARD, 'id': 'cellar.io', 'address': 0x32}]],
             'PPB': [['patch', 'pump.relay_31_0', {'enabled': True, 'tag': 'other'}], ['val', 'pump.relay_31_0', True]]},
        ]

    def gen(self, rng, tier):
        g = c07mod.C07()
        vids = SLAVE_PREFIX_IDS if rng.random() < 0.4 else None
        full = g.gen(rng, tier, vids=vids, remotes=False)
        while len(full['phases']) < 2:
            full = g.gen(rng, tier, vids=vids, remotes=False)
        A = [op for op in full['phases'][0]]
        B = [op for op in full['phases'][1]] + ([op for op in full['phases'][2]] if len(full['phases']) > 2 else [])
        if vids or rng.random() < 0.3:
            # slave devices on the source (restored before the ports, the usual order)
            docs = [g._slave_doc('slv1', 1, {'name': 'slv1', 'flags': 'f'})]
            if rng.random() < 0.4:
                docs.append(g._slave_doc('slv2', 2, {'name': 'slv2', 'flags': 'f'}))
            A.insert(len(A) if vids else rng.randrange(len(A) + 1), ['sput', docs])
        if rng.random() < 0.5:
            B.insert(0, ['del', rng.choice(vids or c07mod.VIDS)])
        if rng.random() < 0.6:
            # the target holds other virtual ports: target + source together run into the limit
            for pid in rng.sample(OTHER_IDS, rng.choice([1, 2, 3])):
                B.insert(rng.randrange(len(B) + 1), ['add', {'id': pid, 'type': rng.choice(['number', 'boolean'])}])
        for pid, typ in WRITABLE_STATIC.items():
            if rng.random() < 0.6:
                va, vb = (rng.choice([(True, False), (False, True)]) if typ == 'boolean'
                          else rng.sample([0, 5, 12, 40, 77], 2))
                ea, eb = rng.random() < 0.75, rng.random() < 0.4
                # source: enabled (mostly) with a value; target: another value, then (mostly) disabled
                A += [['patch', pid, {'enabled': True, 'expression': '', 'transform_read': '', 'transform_write': '',
                                      'gain': rng.randint(0, 9)}], ['val', pid, va]]
                if not ea:
                    A.append(['patch', pid, {'enabled': False}])
                B += [['patch', pid, {'enabled': True, 'expression': '', 'transform_read': '', 'transform_write': '',
                                      'tag': rng.choice(['', 'b'])}], ['val', pid, vb]]
                if not eb:
                    B.append(['patch', pid, {'enabled': False}])
        canon = full['canon']
        # expressions between the non-virtual ports, in opposite directions on source and target (2-cycles and chains)
        if rng.random() < 0.4:
            a, b, c = rng.sample(sorted(WRITABLE_STATIC), 3)
            if rng.random() < 0.5:
                ea, eb = [(a, f'${b}')], [(b, f'${a}')]
            else:
                ea, eb = [(a, f'${b}'), (b, f'ADD(${c}, 1)')], [(c, f'${b}'), (b, f'MUL(${a}, 2)')]
            for pid in (a, b, c):
                A.append(['patch', pid, {'expression': ''}])
            for pid, e in ea:
                A.append(['patch', pid, {'expression': e}])
                canon.append(['e', e, e])
            for pid in (a, b, c):
                B.append(['patch', pid, {'expression': ''}])
            for pid, e in eb:
                B.append(['patch', pid, {'expression': e}])
                canon.append(['e', e, e])
        # a diamond among virtual ports, entered dependent-first (the dependent port sorts last in the document)
        if rng.random() < 0.25:
            x, y, z = sorted(rng.sample(vids or c07mod.VIDS, 3))
            e1, e2 = f'ADD(${x}, ${y})', f'${x}'
            A += [['add', {'id': i, 'type': 'number'}] for i in (x, y, z)]
            A += [['patch', x, {'expression': ''}], ['patch', y, {'expression': ''}],
                  ['patch', z, {'expression': e1}], ['patch', y, {'expression': e2}]]
            canon += [['e', e1, e1], ['e', e2, e2]]
        # a sequence running on a non-virtual port of the target
        if rng.random() < 0.3:
            pid = rng.choice(sorted(WRITABLE_STATIC))
            vals = [True, False] if WRITABLE_STATIC[pid] == 'boolean' else [3, 9]
            B += [['patch', pid, {'enabled': True, 'expression': ''}],
                  ['seq', pid, {'values': vals, 'delays': [400, 400], 'repeat': 0}]]
        per = self._gen_periph(rng) if rng.random() < 0.7 else {}
        return {'canon': canon, 'xf': full['xf'], 'A': A, 'B': B, **per,
                'corrupt_periph': [rng.choice(['nodrv', 'ctor', 'addr', 'dupid', 'dupname', 'none']), rng.randrange(12)],
                'corrupt': [rng.choice(['type', 'expr', 'def', 'none']), rng.randrange(6)],
                'corrupt_devices': [rng.choice(['nohost', 'noport', 'noscheme', 'porttype', 'scheme', 'pathtype', 'none']),
                                    rng.randrange(4)],
                'corrupt_device': rng.choice(['type', 'name', 'none'])}

    def _gen_periph(self, rng):
        """non-static peripherals of the source (POSTed in this order) and what the target does to them"""
        addrs = rng.sample(range(0x20, 0x40), 8)
        names, ids = rng.sample(P_NAMES, len(P_NAMES)), rng.sample(P_IDS, len(P_IDS))

        def entry(kinds):
            kind = rng.choice(kinds)
            e = {'driver': BOARD if rng.random() < 0.75 else BEACON}
            if kind == 'named':
                e['name'] = names.pop()
                if rng.random() < 0.3:
                    e['id'] = rng.choice(['other_id', e['name']])       # the name wins
            elif kind == 'id':
                e['id'] = ids.pop()
                if rng.random() < 0.3:
                    e['name'] = None
            if e['driver'] == BOARD:
                e['address'] = addrs.pop()
                if rng.random() < 0.4:
                    e['channels'] = 2
                if rng.random() < 0.3:
                    e['label'] = rng.choice(['', 'x', 'é "q"'])
                if rng.random() < 0.3:
                    e['opts'] = {'b': rng.randint(0, 3), 'a': {'z': [1, 2], 'y': None}}
            return e

        def port_ops(e, other):
            ops = []
            for pid in pports(e):
                if rng.random() < 0.7:
                    a = {'enabled': rng.random() < 0.7, 'tag': rng.choice(['', 'r', 't2']), 'hold': rng.randint(0, 5),
                         'display_name': rng.choice(['', 'Relay', 'ü'])}
                    if other:
                        a['persisted'] = True
                    ops.append(['patch', pid, a])
                    if a['enabled'] and rng.random() < 0.7:
                        ops.append(['val', pid, rng.random() < 0.6])
            return ops
        src, PA, PPA, PB, PPB = [], [], [], [], []
        auto_beacon = False
        for _ in range(rng.choice([1, 2, 2, 3, 3, 4])):
            kinds = (['named'] if len(names) > 1 else []) + (['id'] if len(ids) > 1 else []) + ['auto']
            e = entry(kinds)
            if e['driver'] == BEACON and 'name' not in e and 'id' not in e:
                if auto_beacon:
                    continue                    # a second parameterless unnamed beacon has the same auto id
                auto_beacon = True
            src.append(e)
            PA.append(['padd', e])
            PPA += port_ops(e, False)
        # the target: some of the source's peripherals deleted, their ports edited, others added (also re-using a name or
        # the parameters of a deleted one)
        gone = set()
        for i in range(len(src)):
            if rng.random() < 0.45:
                PB.append(['pdel#', i])
                gone.add(i)
        # pdel# indexes the source document: delete from the back so that the positions stay valid
        PB.sort(key=lambda op: -op[1])
        for i, e in enumerate(src):
            if i not in gone and rng.random() < 0.6:
                PPB += port_ops(e, True)
        for _ in range(rng.choice([0, 1, 1, 2])):
            r = rng.random()
            if gone and r < 0.35:
                old = src[rng.choice(sorted(gone))]
                e = dict(old)
                if e['driver'] == BOARD and rng.random() < 0.6:
                    e['address'] = addrs.pop()          # same name/id, another board
                elif 'name' in e or 'id' in e:
                    continue
            else:
                e = entry((['named'] if names else []) + ['auto'])
                if e['driver'] == BEACON and 'name' not in e and auto_beacon:
                    continue
            PB.append(['padd', e])
            PPB += port_ops(e, True)
        return {'PA': PA, 'PPA': PPA, 'PB': PB, 'PPB': PPB}

    def shrink_candidates(self, case):
        for key in ('PPB', 'PB', 'PPA'):
            if case.get(key):
                yield dict(case, **{key: []})
        if case.get('PA'):
            for i in range(len(case['PA'])):
                yield dict(case, PA=case['PA'][:i] + case['PA'][i + 1:], PB=[], PPB=[])
        for key in ('B', 'A'):
            ops = case[key]
            n = len(ops)
            for size in (n // 2, 1):
                if size < 1:
                    continue
                for i in range(0, n, size):
                    yield dict(case, **{key: ops[:i] + ops[i + size:]})

    # ------------------------------------------------------------------ helpers
    async def _reset(self):
        from qtoggleserver.core.api.funcs import ports as f_ports
        from qtoggleserver.slaves.api.funcs import devices as f_devices
        from qtoggleserver.peripherals.api import funcs as f_periph
        h = self.b.FakeHandler(method='PUT')
        await f_devices.put_slave_devices(h, [])
        await f_periph.put_peripherals(h, [])
        await f_ports.put_ports(h, [])
        for pid in ('lp1', 'lp2', 'lp3', 'lp4'):
            a = {'display_name': '', 'tag': '', 'enabled': False, 'persisted': False, 'internal': False, 'gain': 1,
                 'note': '', 'transform_read': ''}
            if pid != 'lp2':
                a.update(expression='', transform_write='')
            if pid in ('lp1', 'lp4'):
                a.update(unit='')
            await f_ports.patch_port(self.b.FakeHandler(method='PATCH'), pid, a)
        await self.b._run_op(['dev', {'name': 'hub0', 'display_name': '', 'admin_password': '', 'normal_password': '',
                                      'viewonly_password': ''}])
        await self.b._settle(2)

    async def _get_periph(self):
        from qtoggleserver.peripherals.api import funcs as f_periph
        return json.loads(json.dumps(await f_periph.get_peripherals(self.b.FakeHandler())))

    async def _run_pops(self, ops, ref):
        """peripheral operations: ['padd', entry] = POST /peripherals, ['pdel', id] = DELETE, ['pdel#', i] = DELETE of the
        i-th non-static entry of the document `ref` (auto ids are not known when the case is generated)"""
        from qtoggleserver.peripherals.api import funcs as f_periph
        res = []
        for op in ops:
            try:
                if op[0] == 'padd':
                    await f_periph.post_peripherals(self.b.FakeHandler(method='POST'), copy.deepcopy(op[1]))
                elif op[0] in ('pdel', 'pdel#'):
                    pid = op[1]
                    if op[0] == 'pdel#':
                        dyn = [e for e in ref if not e.get('static')]
                        if not dyn:
                            res.append('skip')
                            continue
                        pid = dyn[op[1] % len(dyn)]['id']
                    await f_periph.delete_peripheral(self.b.FakeHandler(method='DELETE'), pid)
                else:
                    res.append('bad-op')
                    continue
                res.append('ok')
            except Exception as e:
                res.append(self.b._err(e))
        return res

    async def _pdump(self):
        d = await self.b._dump()
        d['peripherals'] = await self._get_periph()
        return d

    def _pport_ids(self, dump):
        return sorted(p['id'] for p in dump['ports'] if not p.get('virtual') and p['id'] not in ('lp1', 'lp2', 'lp3', 'lp4'))

    def _canon(self, docs, vals, xf_ok):
        ports = {}
        for p in docs['ports']:
            q = {k: v for k, v in p.items() if k not in ('pending_value', 'value')}
            for attr, kind in (('expression', 'e'), ('transform_read', 'r'), ('transform_write', 'w')):
                if isinstance(q.get(attr), str):
                    q[attr] = self.canon_map.get((kind, q[attr])) or q[attr]
            if p.get('enabled') and not p.get('expression') and p.get('writable') and xf_ok(p):
                q['value'] = p.get('value')
            ports[p['id']] = q
        dev = {k: v for k, v in docs['device'].items() if k not in VOLATILE_DEVICE}
        slaves = {}
        for s in docs.get('devices', []):
            s = dict(s)
            s['provisioning'] = sorted(s.get('provisioning', []))
            slaves[s['name']] = s
        return {'ports': ports, 'device': dev, 'devices': slaves}

    async def _put_all(self, docs):
        from qtoggleserver.core.api.funcs import ports as f_ports, device as f_device
        from qtoggleserver.slaves.api.funcs import devices as f_devices
        h = self.b.FakeHandler(method='PUT')
        res = []
        self.put_err_id = None
        self.full_update = None
        from qtoggleserver.peripherals.api import funcs as f_periph
        self.pput_res = None
        for fn, key in ((f_device.put_device, 'device'), (f_periph.put_peripherals, 'peripherals'),
                        (f_devices.put_slave_devices, 'devices'), (f_ports.put_ports, 'ports')):
            if key == 'peripherals':
                # order 15 among the backup endpoints: before the ports, whose attributes need the peripherals' ports
                try:
                    await fn(h, copy.deepcopy(docs[key]))
                    self.pput_res = 'ok'
                except Exception as e:
                    self.pput_res = self.b._err(e)
                continue
            for _ in range(6):                 # let the events of the previous call reach the handler
                await asyncio.sleep(0)
            self.events.clear()
            try:
                await fn(h, copy.deepcopy(docs[key]))
                res.append('ok')
                if key == 'ports':
                    for _ in range(5):
                        await asyncio.sleep(0)
                    self.full_update = 'full-update' in self.events
            except Exception as e:
                res.append(self.b._err(e))
                if key == 'ports':
                    self.put_err_id = getattr(e, 'params', {}).get('id')
        await self.b._settle(4)
        await asyncio.sleep(2)          # a sequence left running on a restored port would show by now
        await self.b._settle(2)
        return res

    async def _real(self, case):
        from qtoggleserver.core import main as core_main
        from qtoggleserver.core.api.funcs import ports as f_ports
        out = {}
        await self._reset()
        out['resPA'] = await self._run_pops(case.get('PA', []), [])
        out['resA'] = [await self.b._run_op(op) for op in case['A'] + case.get('PPA', [])]
        await self.b._settle(4)
        out['a'] = await self._pdump()
        out['a_hashes'] = self.b._hashes()
        out['resPB'] = await self._run_pops(case.get('PB', []), out['a']['peripherals'])
        out['resB'] = [await self.b._run_op(op) for op in case['B'] + case.get('PPB', [])]
        await self.b._settle(4)
        out['b'] = await self._pdump()
        out['b_hashes'] = self.b._hashes()
        out['b_vals'] = self.b._vals()
        for d in (out['a'], out['b']):
            for s in d.get('devices', []):
                s.pop('webhooks', None)          # added by the harness dump, not part of GET /devices
        out['put'] = await self._put_all(out['a'])
        out['put_err_id'], out['full_update'], out['pput'] = self.put_err_id, self.full_update, self.pput_res
        out['c'] = await self._pdump()
        out['c_vals'] = self.b._vals()
        # a second restore of the same backup on the (now equal) hub must be accepted and change nothing
        out['put2'] = await self._put_all(out['a'])
        out['pput2'] = self.pput_res
        out['c2'] = await self._pdump()
        for d in (out['c'], out['c2']):
            for s in d.get('devices', []):
                s.pop('webhooks', None)
        out['c_hashes'] = self.b._hashes()
        # ---- corrupted document
        kind, k = case['corrupt']
        bad = copy.deepcopy(out['a']['ports'])
        out['bad_id'] = None
        if kind != 'none' and bad:
            cands = [i for i, p in enumerate(bad) if (kind != 'def' or p.get('virtual')) and (kind != 'expr' or p.get('writable'))]
            if cands:
                i = cands[k % len(cands)]
                out['bad_id'] = bad[i]['id']
                out['bad_index'] = i
                if kind == 'type':
                    bad[i]['tag'] = 5
                elif kind == 'expr':
                    bad[i]['expression'] = 'BAD('
                else:
                    bad[i]['type'] = 'nonsense'
        out['bad_doc'] = [(p['id'], bool(p.get('virtual'))) for p in bad]
        try:
            await f_ports.put_ports(self.b.FakeHandler(method='PUT'), copy.deepcopy(bad))
            out['bad_res'] = ('ok', None)
        except Exception as e:
            out['bad_res'] = (self.b._err(e), getattr(e, 'params', {}).get('id'))
        await self.b._settle(2)
        out['d_ids'] = sorted(p['id'] for p in (await self.b._dump())['ports'])
        out['polled'], out['event'] = await self._probe()
        # ---- corrupted PUT /devices: the error must carry the index of the entry; switches on afterwards
        from qtoggleserver.slaves.api.funcs import devices as f_devices
        from qtoggleserver.core.api.funcs import device as f_device
        kind, k = case.get('corrupt_devices', ['none', 0])
        sdocs = copy.deepcopy(out['a'].get('devices', []))
        g = c07mod.C07()
        while len(sdocs) < 2:
            n = len(sdocs) + 7
            sdocs.append(g._slave_doc(f'extra{n}', n, {'name': f'extra{n}', 'flags': 'f'}))
        out['sbad_index'] = None
        if kind != 'none':
            i = k % len(sdocs)
            out['sbad_index'] = i
            if kind == 'nohost':
                sdocs[i].pop('host')
            elif kind == 'noport':
                sdocs[i].pop('port')
            elif kind == 'noscheme':
                sdocs[i].pop('scheme')
            elif kind == 'porttype':
                sdocs[i]['port'] = 'eighty'
            elif kind == 'scheme':
                sdocs[i]['scheme'] = 'ftp'
            elif kind == 'pathtype':
                sdocs[i]['path'] = 7
            sdocs[i]['unknown_field'] = 1          # unknown fields are tolerated by the loose entry schema
        out['sbad_n'] = len(sdocs)
        try:
            await f_devices.put_slave_devices(self.b.FakeHandler(method='PUT'), copy.deepcopy(sdocs))
            out['sbad_res'] = ('ok', None)
        except Exception as e:
            out['sbad_res'] = (self.b._err(e), getattr(e, 'params', {}).get('index'))
        await self.b._settle(2)
        out['sbad_left'] = len((await self.b._dump()).get('devices', []))
        out['s_polled'], out['s_event'] = await self._probe()
        # ---- corrupted PUT /device: the error names the attribute, nothing changes
        kind = case.get('corrupt_device', 'none')
        ddoc = copy.deepcopy(out['a']['device'])
        if kind == 'type':
            ddoc['display_name'] = 5
        elif kind == 'name':
            ddoc['name'] = 'not a valid name!'
        before_dev = {k2: v for k2, v in (await self.b._dump())['device'].items() if k2 not in VOLATILE_DEVICE}
        try:
            await f_device.put_device(self.b.FakeHandler(method='PUT'), ddoc)
            out['dbad_res'] = ('ok', None)
        except Exception as e:
            out['dbad_res'] = (self.b._err(e), getattr(e, 'params', {}).get('field') or getattr(e, 'params', {}).get('attribute'))
        await self.b._settle(2)
        after_dev = {k2: v for k2, v in (await self.b._dump())['device'].items() if k2 not in VOLATILE_DEVICE}
        out['dbad_unchanged'] = before_dev == after_dev
        out['d_polled'], out['d_event'] = await self._probe()
        # ---- corrupted PUT /peripherals: the k-th entry cannot be added; the error must name it; switches on afterwards
        from qtoggleserver.peripherals.api import funcs as f_periph
        kind, k = case.get('corrupt_periph', ['none', 0])
        pbad = copy.deepcopy(out['a']['peripherals'])
        extra = [{'driver': BEACON, 'name': 'extra1', 'id': 'extra1', 'static': False},
                 {'driver': BOARD, 'id': 'extra2', 'name': None, 'address': 0x50, 'static': False}]
        while len([e for e in pbad if not e.get('static')]) < 2:
            pbad.append(extra.pop(0))
        dyn = [i for i, e in enumerate(pbad) if not e.get('static')]
        out['pbad_index'] = None
        out['pbefore'] = await self._get_periph()
        if kind != 'none':
            i = dyn[k % len(dyn)] if kind in ('nodrv', 'ctor', 'addr') else dyn[1 + k % (len(dyn) - 1)]
            out['pbad_index'] = i
            e = pbad[i]
            if kind == 'nodrv':
                e['driver'] = 'harness.periph_c20.Missing'
            elif kind == 'ctor':                 # a required constructor argument is missing
                e['driver'] = BOARD
                e.pop('address', None)
            elif kind == 'addr':                 # the driver itself refuses the value
                e['driver'] = BOARD
                e['address'] = 'x21'
            else:
                j = dyn[(k // 3) % dyn.index(i)]       # an earlier non-static entry
                if kind == 'dupname':
                    e['name'] = pbad[j]['id']
                else:
                    e['name'], e['id'] = None, pbad[j]['id']
        out['pbad_doc'] = copy.deepcopy(pbad)
        try:
            await f_periph.put_peripherals(self.b.FakeHandler(method='PUT'), copy.deepcopy(pbad))
            out['pbad_res'] = {'how': 'ok'}
        except Exception as e:
            out['pbad_res'] = perr(e)
        await self.b._settle(2)
        out['pbad_left'] = await self._get_periph()
        out['pbad_ports'] = self._pport_ids(await self.b._dump())
        out['p_polled'], out['p_event'] = await self._probe()
        return out

    async def _probe(self):
        """switches: a driver-side value change must still be polled and must still produce a value-change event"""
        from qtoggleserver.core import main as core_main, ports as core_ports
        from qtoggleserver.core.api.funcs import ports as f_ports
        probe = core_ports.get('lp1')
        await f_ports.patch_port(self.b.FakeHandler(method='PATCH'), 'lp1', {'enabled': True, 'expression': '', 'internal': False,
                                                                              'transform_read': '', 'transform_write': ''})
        await asyncio.sleep(11)                    # past the hub's read-error retry interval (virtual time)
        await self.b._settle(2)
        before = probe.get_last_read_value()
        newv = 77 if before != 77 else 78
        self.events.clear()
        await probe.write_value(newv)             # driver-side change, only polling can notice it
        await core_main.update()
        for _ in range(5):
            await asyncio.sleep(0)
        return probe.get_last_read_value() == newv, 'value-change' in self.events

    # ------------------------------------------------------------------ one case
    def run_case(self, case, driver):
        self.canon_map = {(k, t): c for k, t, c in case['canon'] if c is not None}
        xf = {t: (kind, c) for t, kind, c in case['xf']}

        def xf_ok(p):
            tw, tr = p.get('transform_write') or '', p.get('transform_read') or ''
            tw, tr = self.canon_map.get(('w', tw), tw), self.canon_map.get(('r', tr), tr)
            if not tw and not tr:
                return True
            if tw in xf and tr in xf:
                a, b = xf[tw], xf[tr]
                return (a[0] == 'add' and b[0] == 'add' and a[1] == -b[1]) or (a[0] == 'not' and b[0] == 'not')
            return False
        out = self.loop.run_until_complete(self._real(case))
        tags = set()
        fail = None
        src = self._canon(out['a'], None, xf_ok)
        tgt = self._canon(out['b'], None, xf_ok)
        after = self._canon(out['c'], None, xf_ok)
        if out['put'] != ['ok', 'ok', 'ok']:
            fail = Failure('property', f'restore of the hub\'s own backup documents was refused: {out["put"]}', real=out['put'])
        if fail is None and out['full_update'] is False:
            fail = Failure('property', 'an accepted PUT /ports was not followed by a full-update event to the registered '
                           'event handlers (event delivery still off when it was triggered?)')
        # ---- peripherals: GET /peripherals after the restore == the backup document; ports exactly those of its entries
        pa, pb, pc, pc2 = (out[x]['peripherals'] for x in ('a', 'b', 'c', 'c2'))
        dyn_a = [e for e in pa if not e.get('static')]
        if fail is None and out['pput'] != 'ok':
            fail = Failure('property', f'PUT /peripherals refused the hub\'s own GET /peripherals document: {out["pput"]}',
                           real=out['pput'])
        if fail is None and pc != pa:
            fail = Failure('property', 'GET /peripherals after the restore differs from the backup: ids '
                           f'{[e.get("id") for e in pa]} -> {[e.get("id") for e in pc]}; '
                           + c07mod.C07._first_diff({'peripherals': pa}, {'peripherals': pc}), real={'backup': pa, 'after': pc})
        # the static peripheral comes from the settings (same on source and target): it must be listed, flagged static, at
        # every point — before the backup (the harness resets the hub with PUT /peripherals []) and after every PUT
        for label, doc in (('before the backup', pa), ('after the restore', pc), ('after the second restore', pc2),
                           ('after the corrupted PUT /peripherals', out['pbad_left'])):
            if fail is None and not any(e.get('static') is True and e.get('id') == STATIC_PERIPHERAL['name'] and
                                        e.get('driver') == STATIC_PERIPHERAL['driver'] for e in doc):
                fail = Failure('property', f'the static peripheral {STATIC_PERIPHERAL["name"]!r} of the settings is not listed (static) '
                               f'by GET /peripherals {label}: {[(e.get("id"), e.get("static")) for e in doc]}', real=doc)
        want_pp = sorted(i for e in pa for i in pports(e))
        if fail is None and self._pport_ids(out['c']) != want_pp:
            fail = Failure('property', f'ports of the peripherals after the restore: {self._pport_ids(out["c"])}, the backup\'s '
                           f'peripherals have {want_pp}', real=self._pport_ids(out['c']))
        if fail is None and (out['pput2'] != 'ok' or pc2 != pa or self._pport_ids(out['c2']) != want_pp):
            fail = Failure('property', f'second restore of the same peripherals backup: {out["pput2"]}, ids '
                           f'{[e.get("id") for e in pc2]}, ports {self._pport_ids(out["c2"])}', real={'backup': pa, 'after': pc2})
        if dyn_a:
            for e in dyn_a:
                tags.add('periph:named' if e.get('name') else 'periph:auto-id' if e['id'].startswith('peripheral_')
                         else 'periph:explicit-id')
            if [e.get('id') for e in pa] != [e.get('id') for e in pb]:
                tags.add('periph:target-differs')
            if any(p['id'] in want_pp and (p.get('tag') or p.get('hold') or p.get('enabled')) for p in out['a']['ports']):
                tags.add('periph:port-attrs')
        # passwords are not part of a backup
        for d in (src, after):
            for k in ('admin_password', 'normal_password', 'viewonly_password'):
                d['device'].pop(k, None)
        after2 = self._canon(out['c2'], None, xf_ok)
        for k in ('admin_password', 'normal_password', 'viewonly_password'):
            after2['device'].pop(k, None)
        if fail is None and out['put2'] != ['ok', 'ok', 'ok']:
            fail = Failure('property', f'a second restore of the same backup was refused: {out["put2"]}', real=out['put2'])
        if fail is None and src != after:
            fail = Failure('property', 'GET after restore differs from the backup: ' + c07mod.C07._first_diff(src, after),
                           real={'backup': src, 'after': after})
        if fail is None and src != after2:
            fail = Failure('property', 'GET after the second restore differs from the backup: '
                           + c07mod.C07._first_diff(src, after2), real={'backup': src, 'after': after2})
        if fail is None and out['c_hashes'] != out['b_hashes']:
            fail = Failure('property', 'restore changed the password hashes of the target', real=[out['b_hashes'], out['c_hashes']])
        # ---- rejected document
        res, eid = out['bad_res']
        if out['bad_id'] is not None:
            tags.add('corrupt:' + case['corrupt'][0])
            if fail is None and (res == 'ok' or not res.startswith('err:4')):
                fail = Failure('property', f'corrupted entry {out["bad_id"]} was not rejected with a client error: {res}')
            if fail is None and eid != out['bad_id']:
                fail = Failure('property', f'the error for the corrupted document names {eid!r}, the failing entry is '
                               f'{out["bad_id"]!r} ({res})')
        elif fail is None and res != 'ok':
            fail = Failure('property', f'an uncorrupted backup document was rejected: {res}')
        if fail is None and not (out['polled'] and out['event']):
            fail = Failure('property', f'after the {"rejected" if out["bad_id"] else "accepted"} PUT /ports: polling works='
                           f'{out["polled"]}, value-change event delivered={out["event"]}')
        # ---- rejected PUT /devices and PUT /device
        sres, sidx = out['sbad_res']
        if out['sbad_index'] is not None:
            tags.add('corrupt-devices:' + case['corrupt_devices'][0])
            if fail is None and not sres.startswith('err:4'):
                fail = Failure('property', f'PUT /devices: corrupted entry #{out["sbad_index"]} was not rejected: {sres}')
            if fail is None and sidx != out['sbad_index']:
                fail = Failure('property', f'PUT /devices: the error names entry {sidx!r}, the failing entry is '
                               f'#{out["sbad_index"]} ({sres})')
        elif fail is None and sres != 'ok':
            fail = Failure('property', f'PUT /devices: a valid document was rejected: {sres}')
        if fail is None and not (out['s_polled'] and out['s_event']):
            fail = Failure('property', f'after the {"rejected" if out["sbad_index"] is not None else "accepted"} PUT /devices: '
                           f'polling works={out["s_polled"]}, value-change event delivered={out["s_event"]}')
        dres, dfield = out['dbad_res']
        dk = case.get('corrupt_device', 'none')
        if dk != 'none':
            tags.add('corrupt-device:' + dk)
            want = 'display_name' if dk == 'type' else 'name'
            if fail is None and (not dres.startswith('err:4') or dfield != want):
                fail = Failure('property', f'PUT /device with a bad {want}: expected a client error naming it, got {dres}')
            if fail is None and not out['dbad_unchanged']:
                fail = Failure('property', 'a rejected PUT /device changed the device attributes')
        elif fail is None and dres != 'ok':
            fail = Failure('property', f'PUT /device: a valid document was rejected: {dres}')
        if fail is None and not (out['d_polled'] and out['d_event']):
            fail = Failure('property', f'after PUT /device ({dres}): polling works={out["d_polled"]}, value-change event '
                           f'delivered={out["d_event"]}')
        # ---- rejected PUT /peripherals
        pres = out['pbad_res']
        pk = case.get('corrupt_periph', ['none', 0])[0]
        known_periph = None
        if out['pbad_index'] is not None:
            tags.add('corrupt-periph:' + pk)
            i = out['pbad_index']
            ent = out['pbad_doc'][i]
            if fail is None and pres['how'] == 'ok':
                fail = Failure('property', f'PUT /peripherals: entry #{i} ({pk}) cannot be added but the document was accepted')
            elif fail is None and pres['how'] == 'api':
                names = pres['index'] == i or (pres['named'] is not None and pres['named'] in (ent.get('id'), ent.get('name')))
                if not (400 <= pres['status'] < 500) or not names:
                    fail = Failure('property', f'PUT /peripherals: entry #{i} ({pk}) is the failing one; the error is '
                                   f'{pres["status"]} {pres["code"]} naming index={pres["index"]!r} id/name={pres["named"]!r}')
            elif pres['how'] == 'exc':
                # the unrepaired hub lets the registry's exception through (known finding, asserted by one corpus case only)
                tags.add('periph-reject-bare-exception')
                known_periph = Failure('property', f'PUT /peripherals: the failing entry is not named: entry #{i} ({pk}) raises a bare '
                                       f'{pres["exc"]} (no API error, no entry named); peripherals left registered: '
                                       f'{[e.get("id") for e in out["pbad_left"]]}, their ports present: {out["pbad_ports"]}',
                                       real=pres)
        elif fail is None and (pres['how'] != 'ok' or out['pbad_left'] != out['pbad_doc']):
            fail = Failure('property', f'PUT /peripherals: a valid document was rejected or not reproduced: {pres}')
        if fail is None and not (out['p_polled'] and out['p_event']):
            fail = Failure('property', f'after the {"rejected" if out["pbad_index"] is not None else "accepted"} PUT /peripherals: '
                           f'polling works={out["p_polled"]}, value-change event delivered={out["p_event"]}')
        # ---- model: restore of the non-virtual writable ports (enabled flag applied before the value is decided)
        if fail is None:
            enc = c07mod.encp
            driver.ask('begin')
            srcp = {p['id']: p for p in out['a']['ports']}
            tgtp = {p['id']: p for p in out['b']['ports']}
            ents, cmp_ids = [], []
            for pid in sorted(WRITABLE_STATIC):
                tv = enc(out['b_vals'].get(pid))
                sv = enc(srcp[pid].get('value'))
                if tv is None or sv is None:
                    continue
                def cx(e):
                    e = self.canon_map.get(('e', e)) or e
                    return e
                te = cx(tgtp[pid].get('expression') or '')
                se = cx(srcp[pid].get('expression') or '')
                driver.ask(f'static {pid} {"e" if tgtp[pid].get("enabled") else "d"} {tv} {te.encode().hex() or "-"}')
                ents.append(f'{pid}/n/d/enabled:{"g" if srcp[pid].get("enabled") else "f"},expression:={se.encode().hex()}/{sv}')
                if srcp[pid].get('enabled') and not srcp[pid].get('expression') and xf_ok(srcp[pid]):
                    cmp_ids.append(pid)
            if ents:
                rep = driver.ask('put ' + ' '.join(ents))
                # the (repaired) model accepts the non-virtual part of every backup taken from an acyclic source
                mhead = rep.split(' ')[0]
                static_refused = out['put'][2] != 'ok' and out['put_err_id'] in WRITABLE_STATIC
                if (mhead != 'ok') != static_refused:
                    fail = Failure('correspondence', f'restore of the non-virtual ports: hub {out["put"][2]} '
                                   f'(entry {out["put_err_id"]}), model {rep}', real=out['put'][2], model=rep)
                mvals = dict(x.split('=', 1) for x in rep.rsplit('vals=', 1)[1].split(',') if x)
                for pid in (cmp_ids if fail is None else []):
                    rv = enc(out['c_vals'].get(pid))
                    if mvals.get(pid) != rv:
                        tags.add('static-value-restored')
                        fail = Failure('property' if rv != enc(srcp[pid].get('value')) else 'correspondence',
                                       f'restore of non-virtual port {pid} (enabled in the backup with value '
                                       f'{srcp[pid].get("value")!r}; on the target enabled={tgtp[pid].get("enabled")}, value '
                                       f'{out["b_vals"].get(pid)!r}): the hub has value {out["c_vals"].get(pid)!r}, the model {mvals.get(pid)}',
                                       real=rv, model=mvals.get(pid))
                        break
                if cmp_ids:
                    tags.add('static-ports-compared')
        # ---- model: PUT /devices and PUT /device on the abstracted corrupted documents
        if fail is None:
            flags = ['v'] * out['sbad_n']
            if out['sbad_index'] is not None:
                flags[out['sbad_index']] = 'x'
            rep = driver.ask('sput ' + ' '.join(flags))
            parts = rep.split(' ')
            mres = 'ok' if parts[0] == 'ok' else ('err', int(parts[1]))
            rres = 'ok' if sres == 'ok' else ('err', sidx)
            mleft = int(parts[-1].split('=')[1])
            if mres != rres or 'updating=1' not in parts or 'events=1' not in parts or mleft != out['sbad_left']:
                fail = Failure('correspondence', f'PUT /devices on the corrupted document: hub {rres} leaving {out["sbad_left"]} '
                               f'devices, model {rep}', real=[rres, out['sbad_left']], model=rep)
        if fail is None:
            rep = driver.ask('dput ' + ('x' if dk != 'none' else 'v'))
            if (rep.split(' ')[0] == 'ok') != (dres == 'ok'):
                fail = Failure('correspondence', f'PUT /device: hub {dres}, model {rep}', real=dres, model=rep)
        # ---- model: same outcome, same ports, switches on
        if fail is None:
            driver.ask('begin')
            for pid in sorted(p['id'] for p in out['c2']['ports'] if not p.get('virtual')):
                driver.ask(f'static {pid}')
            for pid in sorted(after['ports']):
                if after['ports'][pid].get('virtual'):
                    driver.ask(f'vport {pid}')
            ents = []
            kind = case['corrupt'][0]
            for pid, virt in out['bad_doc']:
                attrs, d = 'tag:g', 'd'
                if pid == out['bad_id']:
                    if kind == 'type':
                        attrs = 'tag:t'
                    elif kind == 'expr':
                        attrs = 'tag:g,expression:b'
                    elif kind == 'def':
                        d = 'x'
                ents.append(f'{pid}/{"v" if virt else "n"}/{d}/{attrs}')
            rep = driver.ask('put ' + ' '.join(ents) if ents else 'put')
            parts = rep.split(' ')
            mres = 'ok' if parts[0] == 'ok' else ('err', parts[1])
            rres = 'ok' if res == 'ok' else ('err', eid)
            mports = [x for x in next(q for q in parts if q.startswith('ports=')).split('=', 1)[1].split(',') if x]
            if mres != rres or 'updating=1' not in parts or 'events=1' not in parts:
                fail = Failure('correspondence', f'PUT of the corrupted document: hub {rres}, model {rep}', real=rres, model=rep)
            elif mports != out['d_ids']:
                fail = Failure('correspondence', f'ports present after the corrupted PUT: hub {out["d_ids"]}, model {mports}',
                               real=out['d_ids'], model=mports)
        if fail is None:
            fail = self._model_periph(out, driver, pk)
        if fail is None and known_periph is not None and case.get('assert_periph_reject'):
            fail = known_periph
        differ_ports = set(src['ports']) != set(tgt['ports'])
        differ_attrs = any(src['ports'].get(i) != tgt['ports'].get(i) for i in src['ports'] if i in tgt['ports'])
        has_expr = any(p.get('expression') for p in src['ports'].values())
        for t, c in (('ports-differ', differ_ports), ('attrs-differ', differ_attrs), ('source-has-expression', has_expr),
                     ('slaves', bool(src['devices'])), ('values-compared', any('value' in p for p in src['ports'].values()))):
            if c:
                tags.add(t)
        key = None
        if differ_ports and differ_attrs and has_expr:
            key = hashlib.sha256(json.dumps(src, sort_keys=True).encode()).hexdigest()[:16]
        return fail, {'tags': sorted(tags), 'key': key, 'observed': {'ports': sorted(src['ports']), 'put': out['put'],
                                                                      'bad': out['bad_res']}}

    # ------------------------------------------------------------------ peripherals: model vs hub
    def _model_periph(self, out, driver, pk):
        ptab = {}

        def pent(e, drv=True, ctor=True):
            body = {k: v for k, v in e.items() if k not in ('id', 'name', 'static')}
            n = ptab.setdefault(json.dumps(body, sort_keys=True), len(ptab))
            fld = lambda k: '~' if k not in e else '-' if e[k] is None else str(e[k])      # absent / null / string
            return (f'{fld("name")}/{fld("id")}/{"v" if drv else "x"}/{n}/{"s" if e.get("static") else "d"}/'
                    f'{"v" if ctor else "x"}')

        def reg(doc, port_ids):
            r = []
            for e in doc:
                body = {k: v for k, v in e.items() if k not in ('id', 'name', 'static')}
                n = ptab.setdefault(json.dumps(body, sort_keys=True), len(ptab))
                pp = pports(e)
                has = '?' if not pp else 'p' if all(i in port_ids for i in pp) else 'n'
                r.append(f'{e["id"]}:{"s" if e.get("static") else "d"}:{e.get("name") or "-"}:{n}:{has}')
            return r

        def same(model_reg, real_reg):
            if len(model_reg) != len(real_reg):
                return False
            for m, r in zip(model_reg, real_reg):
                if r.endswith('?'):
                    m, r = m[:-1], r[:-1]
                if m != r:
                    return False
            return True

        def ask(target, doc, flags=None):
            driver.ask('pbegin')
            driver.ask('ptarget ' + ' '.join(pent(e) for e in target) if target else 'ptarget')
            rep = driver.ask('pput ' + ' '.join(pent(e, *(flags or {}).get(i, ())) for i, e in enumerate(doc)) if doc else 'pput')
            head, _, regs = rep.partition(' reg=')
            return rep, head, [x for x in regs.split(',') if x]
        # the restore: PUT(GET source) on the target
        rep, head, mreg = ask(out['b']['peripherals'], out['a']['peripherals'])
        real = reg(out['c']['peripherals'], set(self._pport_ids(out['c'])))
        if head != 'ok' or not same(mreg, real):
            return Failure('correspondence', f'PUT /peripherals of the backup: hub {out["pput"]} registry {real}, model {rep}',
                           real=real, model=rep)
        # the corrupted document
        i = out['pbad_index']
        flags = {}
        if i is not None:
            flags[i] = (pk != 'nodrv', pk not in ('ctor', 'addr'))
        rep, head, mreg = ask(out['pbefore'], out['pbad_doc'], flags)
        real = reg(out['pbad_left'], set(out['pbad_ports']))
        pres = out['pbad_res']
        rhead = 'ok' if pres['how'] == 'ok' else f'err {i} {pres["kind"]}'
        # which entry failed is the harness's ground truth (the entry it corrupted); the kind comes from the hub's error
        if head != rhead or not same(mreg, real):
            # a repaired hub may clean up after a failing entry; then only the head is comparable
            if head == rhead and pres['how'] == 'api':
                return None
            return Failure('correspondence', f'PUT /peripherals of the corrupted document: hub {rhead} registry {real}, model {rep}',
                           real=[rhead, real], model=rep)
        return None

    def known_match(self, finding, case, failure):
        if finding.get('id') == 'C20-put-peripherals-failing-entry-unnamed':
            return bool(case.get('assert_periph_reject')) and failure.kind == 'property' and \
                'PUT /peripherals: the failing entry is not named' in failure.detail
        return False


PROP = C20
