"""C01 helper: runs one scenario on the REAL hub (real polling loop, real ports, virtual time) and reports what the
property talks about. Public entry points only: Port subclass (read_value / write_value), core.ports.load, port.enable /
disable / set_attr('expression'), core.main.init / set_ready / cleanup, the patch_port_value API function,
port.get_last_read_value / get_expression / is_enabled / has_pending_eval / is_writing / adapt_value_type, and the real
expression parser/evaluator for the oracle's reference value.

Scenario (JSON):
  {'ports': [{'type': 'number'|'boolean', 'reg': int|None, 'rlat': [ms…], 'wlat': [ms…], 'expr': <expr>|None,
              'enabled': bool, 'xf': bool (write transform MUL($,2) / read transform DIV($,2); `reg` and `src` values
              are port-level values, the driver register holds twice as much), 'sample': 'end'|'begin' (when a read
              call samples the register)}, …],            # port i has id 'p<i>'
   'bursts': [[[t_ms, op, …], …], …]}          # ops, times relative to the start of the burst, sorted
  ops:  ['src', i, v]     driver register of port i becomes v (a source-value change; v None = unavailable)
        ['api', i, v]     PATCH /ports/p<i>/value through the real API function (ports without expression only)
        ['expr', i, e]    set (e != None) or clear the expression attribute of port i
        ['en', i, b]      enable / disable port i
        ['readd', i]      DELETE /ports/p<i> then POST /ports again (real virtual source ports only): a fresh port, enabled,
                          without value
        ['fault', i, m]   driver READ FAULT on source port i: from now on its read_value raises an Exception (m = 'err':
                          the hub then retries that port only every _PORT_READ_ERROR_RETRY_INTERVAL seconds) or SkipRead
                          (m = 'skip'); m = None: the driver recovers. Lasts across bursts until recovered.
  port spec extras: 'hlat': [ms…] latencies of the driver's handle_enable / handle_disable hooks (per call);
        'virt': True = a REAL qtoggleserver.core.vports.VirtualPort created through POST /ports (no latencies; calls are
        observed by wrapping the instance's bound read_value / write_value, the class's own methods do the work)
  <expr> = ['p', i] | ['lit', k] | ['una'] (the literal `unavailable`) | [fname, e1, …]   with fname one of ADD SUB MUL IF GT EQ NOT AND OR AVAILABLE DEFAULT
"""
import asyncio

from harness import vloop

FUNCS = {'ADD': None, 'SUB': 2, 'MUL': None, 'IF': 3, 'GT': 2, 'EQ': 2, 'NOT': 1, 'AND': None, 'OR': None,
         'AVAILABLE': 1, 'DEFAULT': 2, 'MIN': None, 'MAX': None}


def expr_text(e) -> str:
    if e[0] == 'p':
        return f'$p{e[1]}'
    if e[0] == 'lit':
        return str(e[1])
    if e[0] == 'una':
        return 'unavailable'
    return f'{e[0]}(' + ', '.join(expr_text(a) for a in e[1:]) + ')'


def expr_deps(e) -> set:
    if e[0] == 'p':
        return {e[1]}
    if e[0] in ('lit', 'una'):
        return set()
    out = set()
    for a in e[1:]:
        out |= expr_deps(a)
    return out


# ------------------------------------------------------------------------------------------------------------------
# tiny reference evaluator (mirrors QtVerif.Model.Core.evalT): view[i] = 'dis' | None (unavailable) | int
# result: ('val', int) | ('na',) | ('err',) ; an error anywhere in an eagerly evaluated argument list wins over 'na'
# ------------------------------------------------------------------------------------------------------------------
def eval_tiny(e, view):
    k = e[0]
    if k == 'lit':
        return ('val', e[1])
    if k == 'una':
        return ('na',)
    if k == 'p':
        c = view.get(e[1], 'dis')
        if c == 'dis':
            return ('err',)
        if c is None:
            return ('na',)
        return ('val', int(c))
    if k == 'IF':
        c = eval_tiny(e[1], view)
        if c[0] != 'val':
            return c
        return eval_tiny(e[2], view) if c[1] != 0 else eval_tiny(e[3], view)
    if k == 'AVAILABLE':
        return ('val', 1 if eval_tiny(e[1], view)[0] == 'val' else 0)
    if k == 'DEFAULT':
        a = eval_tiny(e[1], view)
        return a if a[0] == 'val' else eval_tiny(e[2], view)
    if k in ('AND', 'OR'):       # evaluated one by one, short-circuit
        for a in e[1:]:
            r = eval_tiny(a, view)
            if r[0] != 'val':
                return r
            if (r[1] == 0) == (k == 'AND'):
                return ('val', 0 if k == 'AND' else 1)
        return ('val', 1 if k == 'AND' else 0)
    args = [eval_tiny(a, view) for a in e[1:]]
    if any(a[0] == 'err' for a in args):
        return ('err',)
    if any(a[0] == 'na' for a in args):
        return ('na',)
    v = [a[1] for a in args]
    if k == 'ADD':
        return ('val', sum(v))
    if k == 'SUB':
        return ('val', v[0] - v[1])
    if k == 'MUL':
        r = 1
        for x in v:
            r *= x
        return ('val', r)
    if k == 'GT':
        return ('val', int(v[0] > v[1]))
    if k == 'EQ':
        return ('val', int(v[0] == v[1]))
    if k == 'NOT':
        return ('val', int(not v[0]))
    if k == 'AND':
        return ('val', int(all(v)))
    if k == 'OR':
        return ('val', int(any(v)))
    if k == 'MIN':
        return ('val', min(v))
    if k == 'MAX':
        return ('val', max(v))
    raise ValueError(k)


def adapt_tiny(type_, v):
    return (1 if v != 0 else 0) if type_ == 'boolean' else v


def canon(v):
    """Port values are bool | int | float | None; the scenarios only produce integral ones."""
    if v is None:
        return None
    if isinstance(v, bool):
        return int(v)
    if isinstance(v, float) and v == int(v):
        return int(v)
    return v


class Hub:
    """Boots the pieces of the hub the property is about, once per worker process."""

    def __init__(self):
        self.loop = vloop.new_loop()
        from qtoggleserver.conf import settings
        settings.persist.driver = 'qtoggleserver.drivers.persist.JSONDriver'
        settings.persist.file_path = None
        from qtoggleserver.core import main as core_main      # (import order matters: circular imports in the repo)
        from qtoggleserver.core import ports as core_ports
        from qtoggleserver.core import expressions as core_expressions
        from qtoggleserver.core import api as core_api
        from qtoggleserver.core.api.funcs import ports as api_ports
        self.settings = settings
        self.core_ports = core_ports
        self.core_main = core_main
        self.core_expressions = core_expressions
        self.core_api = core_api
        self.api_ports = api_ports
        self.tick_ms = int(settings.core.tick_interval)
        import logging
        logging.getLogger('qtoggleserver').setLevel(logging.CRITICAL + 1)   # expected driver/eval errors are logged
        hub = self

        class RegPort(core_ports.Port):
            """Register-like port: write_value stores (after its latency), read_value returns the register (sampled
            when the call completes); every call is logged with virtual timestamps."""
            WRITABLE = True

            def __init__(self, id_, type_, reg, rlat, wlat, sample='end', hlat=()):
                super().__init__(id_)
                self.sample = sample
                self.vtype = type_
                self.hlat = list(hlat) or [0]
                self.n_hook = 0
                self._type = type_
                if type_ == 'number':
                    self._integer = True
                self.reg = reg
                self.rlat = list(rlat) or [0]
                self.wlat = list(wlat) or [0]
                self.fault = None         # None | 'err' | 'skip'
                self.n_fail = 0           # read calls that ended with the scripted fault
                self.n_read = 0
                self.n_read_done = 0      # completed, successful reads
                self.n_write = 0
                self.reads_in_flight = 0
                self.writes_in_flight = 0
                self.write_calls = []      # (t_enter_ms, t_exit_ms, value)

            async def read_value(self):
                lat = self.rlat[self.n_read % len(self.rlat)]
                self.n_read += 1
                self.reads_in_flight += 1
                try:
                    first = self.reg          # 'begin': the driver samples when the call starts
                    if lat:
                        await asyncio.sleep(lat / 1000.0)
                    if self.fault == 'err':
                        self.n_fail += 1
                        raise IOError('scripted read fault')
                    if self.fault == 'skip':
                        self.n_fail += 1
                        raise core_ports.SkipRead()
                    self.n_read_done += 1
                    return first if self.sample == 'begin' else self.reg
                finally:
                    self.reads_in_flight -= 1

            async def _hook(self):
                lat = self.hlat[self.n_hook % len(self.hlat)]
                self.n_hook += 1
                if lat:
                    await asyncio.sleep(lat / 1000.0)

            async def handle_enable(self):      # the driver is being enabled (slow hardware, remote device …)
                await self._hook()

            async def handle_disable(self):
                await self._hook()

            async def write_value(self, value):
                lat = self.wlat[self.n_write % len(self.wlat)]
                self.n_write += 1
                self.writes_in_flight += 1
                t0 = hub.now_ms()
                try:
                    if lat:
                        await asyncio.sleep(lat / 1000.0)
                    self.reg = canon(value) if value is not None else None
                    if self._type == 'boolean' and value is not None:
                        self.reg = bool(value)
                finally:
                    self.writes_in_flight -= 1
                    self.write_calls.append((t0, hub.now_ms(), canon(value)))

        self.RegPort = RegPort

    def fresh_loop(self):
        """A new virtual-time loop (clock back at 0) for every case: what a case does must not depend on what ran before
        it in the same worker — same-instant timer ties are decided by floating-point sums of absolute loop times — so
        that a replayed case behaves exactly as it did inside its stream."""
        try:
            self.loop.close()
        except Exception:
            pass
        self.loop = vloop.new_loop()
        if hasattr(self.core_main, '_update_lock'):
            self.core_main._update_lock = None      # an asyncio.Lock belongs to the loop it was first used on

    def now_ms(self):
        return int(round(self.loop.time() * 1000))

    # --------------------------------------------------------------------------------------------------------------
    def _handler(self):
        class Req:
            headers = {}
            method = 'POST'
            path = ''
            query_arguments = {}
            body = b''

        class Handler:
            access_level = self.core_api.ACCESS_LEVEL_ADMIN
            username = 'u'
            request = Req()
        return Handler()

    async def _add_virtual(self, i, type_):
        """POST /ports through the real API function: a real VirtualPort, enabled, no value. The instance's bound
        read_value / write_value are wrapped to count and log the calls; the class's own methods do the work."""
        params = {'id': f'p{i}', 'type': type_}
        if type_ == 'number':
            params['integer'] = True
        await self.api_ports.post_ports(self._handler(), params)
        p = self.core_ports.get(f'p{i}')
        p.vtype, p.scale, p.fault, p.sample = type_, 1, None, 'end'
        p.rlat, p.wlat, p.hlat = [0], [0], [0]
        p.n_read = p.n_read_done = p.n_fail = p.n_write = p.reads_in_flight = p.writes_in_flight = 0
        p.write_calls = []
        p.reg = None
        real_read, real_write, hub = p.read_value, p.write_value, self

        async def read_value():
            p.n_read += 1
            v = await real_read()
            p.reg = canon(v)
            p.n_read_done += 1
            return v

        async def write_value(value):
            p.n_write += 1
            t0 = hub.now_ms()
            try:
                return await real_write(value)
            finally:
                p.write_calls.append((t0, hub.now_ms(), canon(value)))
        p.read_value, p.write_value = read_value, write_value
        return p

    async def _del_virtual(self, p):
        await self.api_ports.delete_port(self._handler(), p.get_id())

    async def _api_write(self, port, v):
        class Req:
            headers = {}
            method = 'PATCH'
            path = ''
            query_arguments = {}
            body = b''

        class Handler:
            access_level = self.core_api.ACCESS_LEVEL_ADMIN
            username = 'u'
            request = Req()
        val = bool(v) if port.vtype == 'boolean' else v
        try:
            await self.api_ports.patch_port_value(Handler(), port.get_id(), val)
            return 'ok'
        except self.core_api.APIAccepted:
            return 'accepted'
        except self.core_api.APIError as e:
            return f'refused:{e.status}'

    async def _apply(self, ports, op, log):
        kind = op[1]
        p = ports[op[2]]
        if kind == 'src':
            v = op[3]
            p.reg = (bool(v) if p.vtype == 'boolean' else v * p.scale) if v is not None else None
        elif kind == 'fault':
            p.fault = op[3]
            p.n_fail = 0
        elif kind == 'api':
            log.append(['api', op[2], await self._api_write(p, op[3])])
        elif kind == 'expr':
            try:
                await p.set_attr('expression', expr_text(op[3]) if op[3] is not None else '')
                log.append(['expr', op[2], 'ok'])
            except Exception as e:   # CircularDependency etc.: the edit is refused, nothing changes
                log.append(['expr', op[2], 'refused:' + type(e).__name__])
        elif kind == 'en':
            if op[3]:
                await p.enable()
            else:
                await p.disable()
        elif kind == 'readd':
            await self._del_virtual(p)
            ports[op[2]] = await self._add_virtual(op[2], p.vtype)
        else:
            raise ValueError(kind)

    @staticmethod
    def _busy(ports):
        """Something the property calls pending: an evaluation queued or running, a write running — or queued but not yet
        picked up by the writer task (the instant after `_eval_and_write` submitted it; the write queue is named by the
        property's anchors, there is no public accessor; its absence degrades to 'not observed')."""
        for p in ports:
            if p.has_pending_eval() or p.is_writing() or p.writes_in_flight:
                return True
            q = getattr(p, '_write_value_queue', None)
            if q is not None and hasattr(q, 'qsize') and q.qsize() > 0:
                return True
        return False

    async def _quiesce(self, ports, max_rounds=150):
        """Let virtual time run until nothing the property talks about moves during a whole window: no evaluation
        pending, no write queued or running, no change of any last-read value, no driver write call, for K ticks
        plus the longest possible polling pass."""
        longest = sum(max(p.rlat) for p in ports) + max([max(p.wlat) for p in ports] + [0])
        window = (3 * self.tick_ms + 2 * longest + 10) / 1000.0

        def snap():
            return ([canon(p.get_last_read_value()) for p in ports], [p.n_write for p in ports], [p.reg for p in ports])
        for _ in range(max_rounds):
            before = snap()
            reads = [p.n_read_done for p in ports]
            await asyncio.sleep(window)
            busy = self._busy(ports)
            # an enabled port that was not polled during a whole window is suspended after a read error (the hub retries
            # after _PORT_READ_ERROR_RETRY_INTERVAL seconds): not quiescent yet
            # (a port whose driver is faulting right now only has to have failed once since the fault began)
            busy = busy or any(p.is_enabled() and (p.n_read_done - r < 2 if p.fault is None else p.n_fail == 0)
                               for p, r in zip(ports, reads))
            if busy or before != snap():
                continue
            # tasks woken at this very instant (an evaluation dequeued right now, a write just submitted) get their turn
            for _ in range(4):
                await asyncio.sleep(0)
            if not self._busy(ports) and before == snap():
                return True
        return False

    async def _reference(self, port, ports):
        """Value the port's expression yields over the current values, by the REAL evaluator (a fresh parse of the
        port's expression text, so no evaluation state of the live object is touched)."""
        ce = self.core_expressions
        expr = port.get_expression()
        if expr is None:
            return None
        fresh = ce.parse(port.get_id(), str(expr), role=ce.ROLE_VALUE)
        values = {p.get_id(): p.get_last_read_value() for p in ports if p.is_enabled()}
        ctx = ce.EvalContext(values, self.now_ms())
        try:
            v = await fresh.eval(ctx)
        except ce.ValueUnavailable:
            return ('na',)
        except ce.ExpressionEvalError:
            return ('err',)
        return ('val', canon(await port.adapt_value_type(v)))

    async def run(self, case):
        cp, cm = self.core_ports, self.core_main
        specs = case['ports']
        def scale(s):
            return 2 if s.get('xf') and s['type'] == 'number' else 1
        ports = []
        obs = {'bursts': [], 'setup': []}
        try:
            for i, s in enumerate(specs):       # registry (= polling) order is the index order
                if s.get('virt'):
                    ports.append(await self._add_virtual(i, s['type']))
                    if not s.get('enabled', True):
                        await ports[-1].disable()
                    continue
                args = {'driver': self.RegPort, 'id_': f'p{i}', 'type_': s['type'],
                        'reg': ((bool(s['reg']) if s['type'] == 'boolean' else s['reg'] * scale(s))
                                if s['reg'] is not None else None),
                        'rlat': s['rlat'], 'wlat': s['wlat'], 'sample': s.get('sample', 'end'),
                        'hlat': s.get('hlat', ())}
                ports.extend(await cp.load([args], trigger_add=False))
            for p, s in zip(ports, specs):
                if s.get('virt'):
                    continue
                p.scale = scale(s)
                if p.scale == 2:    # mutually inverse write / read transforms: the driver sees twice the port value
                    await p.set_attr('transform_write', 'MUL($, 2)')
                    await p.set_attr('transform_read', 'DIV($, 2)')
            for p, s in zip(ports, specs):
                if s.get('enabled', True) and not s.get('virt'):
                    await p.enable()
            for i, (p, s) in enumerate(zip(ports, specs)):
                if s.get('expr') is not None:
                    await self._apply(ports, [0, 'expr', i, s['expr']], obs['setup'])
            await cm.init()
            cm.set_ready()
            for burst in [[]] + list(case['bursts']):
                t0 = self.loop.time()
                writes_before = [len(p.write_calls) for p in ports]
                values_before = [canon(p.get_last_read_value()) for p in ports]
                log = []
                tasks = []
                for op in burst:
                    dt = t0 + op[0] / 1000.0 - self.loop.time()
                    if dt > 0:
                        await asyncio.sleep(dt)
                    if op[1] in ('src', 'fault'):
                        await self._apply(ports, op, log)
                    else:   # API calls / attribute edits run as their own tasks, like concurrent requests
                        tasks.append(asyncio.ensure_future(self._apply(ports, op, log)))
                if tasks:
                    await asyncio.wait(tasks)
                    for t in tasks:
                        t.result()
                quiet = await self._quiesce(ports)
                state = []
                for i, p in enumerate(ports):
                    e = p.get_expression()
                    if len(p.write_calls) < writes_before[i]:
                        writes_before[i] = 0        # the port object was replaced (readd)
                    state.append({
                        'enabled': p.is_enabled(),
                        'value': canon(p.get_last_read_value()),
                        'reg': canon(p.reg),
                        'expr': str(e) if e is not None else None,
                        'ref': await self._reference(p, ports),
                        'fault': p.fault,
                        'writes': [w[2] for w in p.write_calls[writes_before[i]:]],
                        'before': values_before[i],
                    })
                obs['bursts'].append({'quiet': quiet, 'log': log, 'state': state})
        finally:
            await cm.cleanup()
            for p in ports:
                if isinstance(p, self.RegPort):
                    await p.remove(persisted_data=False)
                else:
                    await self._del_virtual(p)
        return obs
