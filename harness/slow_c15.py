"""C15 helper — scenarios in which a faulty port's failing call TAKES TIME before it fails.

A driver whose device does not answer does not raise at once: `read_value()` / `write_value()` await their I/O for a
while (a few ms ... many seconds) and raise (or report SkipRead) afterwards. While a polling pass is suspended inside
such a read, everything that is serialised behind the pass (the next ticks of `update_loop`, the confirming
`main.update()` of every write, of every expression evaluation and of `patch_port_value`) waits for it. The cases built
here run the REAL `update_loop` with such drivers, healthy ports registered before and after the faulty one, and API
writes (`patch_port_value`, so that 204/202 is observed) and source changes landing inside and outside the stall.

What the unchanged hub guarantees, and hence what the oracle demands (nothing more):

  Let Dmax = sum, over the enabled faulty ports, of the longest time one of their reads takes before failing (one
  sequential pass visits each port once), T = one tick. Passes are serialised by the update lock, every pass reads every
  enabled healthy port, and the lock is never idle for longer than T (`update_loop` asks for a pass T after its previous
  one ended). Therefore
    (P)  two consecutive reads of a healthy port are at most T + Dmax apart (the part of pass j after the port plus the
         part of pass j+1 before it visit every faulty port at most once);
    (E)  a change of a healthy device value at time c is reported (value-change event) by c + T + 2*Dmax; an expression
         port over it follows within another T + 2*Dmax.
  The scenario keeps consecutive stimuli of the healthy ports (source changes, API writes) G ticks apart, G large enough
  that the hub has settled in between (see `params`): then the healthy ports' value-change EVENT SEQUENCES, DRIVER
  WRITES, API RESULTS and FINAL VALUES are exactly those of the run without the faulty ports; only their times may be
  later, by at most (E). A slow failing read legitimately delays the polling of the other ports by its duration (one
  sequential pass) — that is not demanded away. Starving a healthy port for longer than (P), losing or inventing an
  event, or answering a write differently (202 Accepted instead of 204) is a violation.

The Lean model (Model/Faults.lean) has zero-latency outcomes; it is not given durations. For these cases the
correspondence is restricted to what the model expresses: the reference run (faulty ports absent), replayed as usual.
"""
import copy
import math

EPS = 1e-3
CLASSES = ['zero', 'ms', 'ticks', 'seconds', 'long']


def out_dur(out):
    """seconds a scripted failing call spends waiting for its device before it raises / reports skip:
    ['raise', type, ms] / ['skip', ms]; the plain forms ['raise', type] / 'skip' fail at once"""
    if isinstance(out, (list, tuple)):
        if out[0] == 'raise' and len(out) > 2:
            return out[2] / 1000.0
        if out[0] == 'skip' and len(out) > 1:
            return out[1] / 1000.0
    return 0.0


def dur_class(ms, tick):
    if ms <= 0:
        return 'zero'
    if ms > 100 * tick:
        return 'long'           # longer than 100 ticks
    if ms < tick:
        return 'ms'
    if ms <= 12 * tick + tick:
        return 'ticks'
    return 'seconds'


def _outs(p, key, tkey):
    outs = list(p.get(key, {}).values())
    t = p.get('tail', {}).get(tkey)
    if t:
        outs.append(t[1])
    return outs


def params(case, retry):
    """Bounds of a slow case, all derived from the case itself (so that a shrunk case carries its own bounds)."""
    ports = case['ports']
    T = case['tick'] / 1000.0
    dmax = 0.0
    wmax = 0.0
    for p in ports:
        if p['faulty'] and p['enabled']:
            dmax += max([out_dur(o) for o in _outs(p, 'rd', 'r')] or [0.0])
            wmax = max([wmax] + [out_dur(o) for o in _outs(p, 'wr', 'w')])
    d = int(math.ceil(dmax / T - 1e-9)) if dmax > 0 else 0
    n_der = sum(1 for p in ports if p['enabled'] and p['kind'] == 'der')
    n_reg = sum(1 for p in ports if p['enabled'] and p['kind'] == 'reg')
    # passes that may be queued on the update lock at one moment: update_loop, the API handler, one spare; the writer of
    # every writable port; the evaluation task of every expression port. Each of them is one pass of at most Dmax.
    q = 3 + 2 * n_der + n_reg
    l1 = 1 + 2 * d                       # (E) in ticks
    g = 2 * l1 + q * d + 2               # spacing of the healthy stimuli, ticks
    tail = g + int(math.ceil((retry + wmax + dmax) / T)) + 4
    depth = {i: (2 if p['kind'] == 'der' else 1) for i, p in enumerate(ports)}
    return {'T': T, 'dmax': dmax, 'wmax': wmax, 'd': d, 'q': q, 'g': g, 'tail': tail, 'depth': depth,
            'gap': T + dmax, 'delay': T + 2 * dmax}


def stimuli(case):
    """(tick, kind, port) of everything that changes a healthy port's value from outside"""
    ports = case['ports']
    out = []
    for i, p in enumerate(ports):
        if not p['faulty'] and p['kind'] == 'src':
            for k, _ in p.get('chg', []):
                out.append((k, 'src', i))
    for k, ops in case['ops'].items():
        for op in ops:
            if not ports[op[1]]['faulty']:
                out.append((int(k), 'api', op[1]))
    return sorted(out)


def valid(case, retry):
    """A slow case is only meaningful when its stimuli are spaced as the oracle's argument needs (shrinking keeps it so)."""
    ports = case['ports']
    if case.get('rules') or case.get('hraise') or any(p.get('reborn') for p in ports):
        return False
    if not any(p['faulty'] for p in ports) or not any((not p['faulty']) and p['enabled'] for p in ports):
        return False
    pr = params(case, retry)
    st = stimuli(case)
    if st and st[0][0] < 1:
        return False
    for a, b in zip(st, st[1:]):
        if b[0] - a[0] < pr['g']:
            return False
    last = max([s[0] for s in st] + [int(k) for k in case['ops']] + [0])
    if case['nticks'] < last + pr['tail']:
        return False
    for i, p in enumerate(ports):
        if p['kind'] == 'src':
            ch = p.get('chg', [])
            if any(b[0] <= a[0] for a, b in zip(ch, ch[1:])) or any(k < 1 or k >= case['nticks'] for k, _ in ch):
                return False
        if p['kind'] == 'der':
            if not p['deps'] or any(j == i or j >= len(ports) for j in p['deps']):
                return False
            if not p['faulty'] and any(ports[j]['faulty'] or ports[j]['kind'] == 'der' for j in p['deps']):
                return False
            if p['faulty'] and any(ports[j]['kind'] == 'der' for j in p['deps']):
                return False
    # API values written to a healthy port are pairwise distinct and differ from its initial value: "202 Accepted"
    # (value unchanged after the confirming pass) can then never be the legitimate answer
    seen = {}
    for k in sorted(case['ops'], key=int):
        for op in case['ops'][k]:
            p = ports[op[1]]
            if p['kind'] != 'reg' or not p['enabled']:
                return False
            if not p['faulty']:
                s = seen.setdefault(op[1], {p['v0']})
                if op[2] in s:
                    return False
                s.add(op[2])
    return True


def expand(case):
    """-> the case in the general format of harness/props/c15.py (per-tick value lists of the source ports)"""
    c = copy.deepcopy(case)
    for p in c['ports']:
        if p['kind'] == 'src':
            ch = p.get('chg', [])
            n = (ch[-1][0] + 1) if ch else 1
            vals, v, j = [], p['v0'], 0
            for k in range(n):
                while j < len(ch) and ch[j][0] <= k:
                    v = ch[j][1]
                    j += 1
                vals.append(v)
            p['vals'] = vals
    c.setdefault('hraise', {})
    c.setdefault('rules', [])
    return c


# ------------------------------------------------------------------------------------------------ generator
def gen(rng, tier, retry, exc_names):
    tick = rng.choice([125, 125, 250])
    cls = rng.choice(['zero', 'ms', 'ms', 'ticks', 'ticks', 'ticks', 'seconds', 'seconds', 'long', 'long'])
    lower = {'zero': ['zero'], 'ms': ['zero', 'ms'], 'ticks': ['zero', 'ms', 'ticks'],
             'seconds': ['ms', 'ticks', 'seconds'], 'long': ['ms', 'ticks', 'seconds']}

    def dur(c):
        if c == 'zero':
            return 0
        if c == 'ms':
            return rng.randint(1, min(60, tick - 5))
        if c == 'ticks':
            return rng.randint(2, 12) * tick + rng.choice([0, 0, rng.randint(1, tick - 1)])
        if c == 'seconds':
            return rng.randint(13 * tick + 1, max(13 * tick + 2, 6000))
        return rng.choice([100 * tick + 1, 101 * tick, (100 + rng.randint(2, 30)) * tick + rng.choice([0, rng.randint(1, tick - 1)])])

    def fail(c, skip_p=0.25):
        if rng.random() < skip_p:
            return ['skip', dur(c)]
        return ['raise', rng.choice(exc_names), dur(c)]

    # ---- layout: healthy ports before AND after the faulty one (registration order = polling order)
    flags = [False] * rng.randint(1, 2) + [True] + [False] * rng.randint(1, 2)
    second = rng.random() < 0.3
    if second:
        flags.insert(rng.randint(0, len(flags)), True)
    main_f = rng.choice([i for i, f in enumerate(flags) if f]) if second else flags.index(True)
    n = len(flags)
    hidx = [i for i in range(n) if not flags[i]]
    order = hidx[:]
    rng.shuffle(order)
    hk = {order[0]: 'reg', order[1]: 'src'}          # something to write through the API, something that changes by itself
    for i in order[2:]:
        hk[i] = rng.choice(['src', 'reg', 'der', 'der'])
    if len(order) == 2 and rng.random() < 0.15:
        hk[order[1]] = 'der'
    if cls == 'long' and rng.random() < 0.8:
        hk = {i: ('src' if k == 'der' else k) for i, k in hk.items()}
    ports = []
    for i in range(n):
        if flags[i]:
            kind = rng.choice(['src', 'src', 'reg', 'der'])
            if cls == 'long' and kind == 'der' and rng.random() < 0.8:
                kind = 'src'
        else:
            kind = hk[i]
        p = {'kind': kind, 'faulty': flags[i], 'enabled': True, 'v0': rng.randint(0, 9)}
        ports.append(p)
    for i, p in enumerate(ports):
        if p['kind'] == 'der':
            cands = [j for j, q in enumerate(ports) if j != i and q['kind'] != 'der' and (p['faulty'] or not q['faulty'])]
            rng.shuffle(cands)
            p['deps'], p['c'], p['v0'] = cands[:rng.randint(1, 2)], rng.randint(-3, 9), 0
            if not p['deps']:
                p['kind'] = 'reg'
                del p['deps'], p['c']
    if rng.random() < 0.15:               # a disabled port somewhere (never polled, never counted)
        ports.insert(rng.randint(0, n), {'kind': 'src', 'faulty': rng.random() < 0.5, 'enabled': False, 'v0': 3})
        at = next(i for i, p in enumerate(ports) if not p['enabled'])
        for p in ports:
            if p['kind'] == 'der':
                p['deps'] = [j + 1 if j >= at else j for j in p['deps']]
        if at <= main_f:
            main_f += 1
        n += 1
    # ---- fault scripts
    r0 = rng.randint(1, 4)
    top = None
    for i, p in enumerate(ports):
        if not p['faulty']:
            continue
        rd, hb, wr, tail = {}, {}, {}, {}
        c = cls if i == main_f else rng.choice(lower[cls])
        style = rng.choice(['always', 'always', 'burst', 'skipslow', 'flap']) if i == main_f else rng.choice(['always', 'burst', 'flap'])
        first = r0 if i == main_f else rng.randint(0, 6)
        if style == 'always':
            f = fail(c, 0.15)
            tail['r'] = [first, f]
            for k in range(first + 1, first + 6):
                if rng.random() < 0.3:
                    rd[str(k)] = fail(rng.choice(lower[c] if c in lower else [c]))
        elif style == 'burst':
            k = first
            for _ in range(rng.randint(1, 3)):
                ln = rng.randint(1, 3)
                for j in range(ln):
                    rd[str(k + j)] = fail(c if j == 0 else rng.choice(lower[c] + [c]))
                k += ln + rng.randint(1, 8)
        elif style == 'skipslow':
            f = ['skip', dur(c)]
            for k in range(first, first + rng.randint(3, 40)):
                rd[str(k)] = f
        else:
            for k in range(first, first + 24, 2):
                rd[str(k)] = fail(c)
        if i == main_f:
            # the first failing read of the main faulty port shows the case's duration class
            key = str(first)
            f = rd.get(key) or tail['r'][1]
            top = out_dur(f)
        for k in range(8):
            if rng.random() < 0.15:
                hb[str(k * rng.randint(1, 5))] = ['raise', rng.choice(exc_names)]
        if p['kind'] != 'src':
            for k in range(6):
                if rng.random() < rng.choice([0.0, 0.4, 0.9]):
                    wr[str(k)] = ['raise', rng.choice(exc_names), dur(rng.choice(lower[cls] + [cls]))]
        p['rd'], p['hb'], p['wr'], p['tail'] = rd, hb, wr, tail
    case = {'slow': True, 'tick': tick, 'nticks': 1, 'ports': ports, 'ops': {}, 'hraise': {}, 'rules': []}
    pr = params(case, retry)
    g, T = pr['g'], pr['T']
    # ---- stimuli of the healthy ports, G ticks apart; API writes to the faulty registers anywhere
    hs = [i for i, p in enumerate(ports) if not p['faulty'] and p['enabled'] and p['kind'] == 'src']
    hr = [i for i, p in enumerate(ports) if not p['faulty'] and p['enabled'] and p['kind'] == 'reg']
    fr = [i for i, p in enumerate(ports) if p['faulty'] and p['enabled'] and p['kind'] == 'reg']
    ns = rng.randint(3, 6) if pr['d'] <= 16 else (rng.randint(2, 4) if pr['d'] <= 100 else rng.randint(2, 3))
    if tier != 'quick':
        ns += 1
    targeted = bool(hr) and top is not None and top > T / 2 and rng.random() < 0.6
    if targeted:
        # aimed at the first stall: the r0-th read of the main faulty port happens in the pass of tick r0 when nothing
        # else asked for a pass before; the API write is submitted at mid-tick, inside [r0*T, r0*T + top)
        jmax = int((top - T / 2) / T - 1e-9)
        k = r0 + rng.randint(0, max(0, jmax))
    else:
        k = rng.randint(1, 6)
    cur = {i: ports[i]['v0'] for i in hs}
    uniq = 100
    ops = {}
    for s in range(ns):
        if (s == 0 and targeted) or (hr and (not hs or rng.random() < 0.5)):
            i = rng.choice(hr)
            ops.setdefault(str(k), []).append(['api', i, uniq])
            uniq += 1
        else:
            i = rng.choice(hs)
            v = rng.choice([x for x in range(10) if x != cur[i]])
            cur[i] = v
            ports[i].setdefault('chg', []).append([k, v])
        last = k
        k += g + rng.randint(0, 3) + (rng.randint(0, 2 * g) if rng.random() < 0.2 else 0)
    nticks = last + pr['tail']
    for i in fr:
        for _ in range(rng.randint(0, 3)):
            t = str(rng.randint(0, last))
            if t not in ops or all(o[1] in fr for o in ops[t]):
                ops.setdefault(t, []).append(['api', i, rng.randint(0, 20)])
    for i, p in enumerate(ports):
        if p['faulty'] and p['kind'] == 'src':
            ch, t = [], rng.randint(1, 8)
            while t < nticks and len(ch) < 12:
                ch.append([t, rng.randint(0, 9)])
                t += rng.randint(1, max(2, nticks // 6))
            p['chg'] = ch
        elif p['kind'] == 'src':
            p.setdefault('chg', [])
    case['ops'], case['nticks'] = ops, nticks
    return case


def corpus(retry):
    """Targeted witnesses (run first on every check)."""
    cases = []

    def F(kind='src', **kw):
        p = {'kind': kind, 'faulty': True, 'enabled': True, 'v0': 5, 'rd': {}, 'hb': {}, 'wr': {}, 'tail': {}}
        p.update(kw)
        if kind == 'src':
            p.setdefault('chg', [])
        return p

    def H(kind, v0=0, **kw):
        p = {'kind': kind, 'faulty': False, 'enabled': True, 'v0': v0}
        p.update(kw)
        if kind == 'src':
            p.setdefault('chg', [])
        return p

    def finish(case, stim):
        """stim: list of ('src', port, value) | ('api', port, value) | ('at', tick); placed G ticks apart"""
        pr = params(case, retry)
        k = stim[0][1] if stim[0][0] == 'at' else 2
        last = k
        for s in stim:
            if s[0] == 'at':
                continue
            if s[0] == 'src':
                case['ports'][s[1]]['chg'].append([k, s[2]])
            else:
                case['ops'].setdefault(str(k), []).append(['api', s[1], s[2]])
            last = k
            k += pr['g'] + 1
        case['nticks'] = last + pr['tail']
        assert valid(case, retry), case
        return case

    for tick in (125, 250):
        # 1. a device that times out after more than 100 ticks, for the whole run (every retry fails the same way);
        #    healthy sources before and after it change, a healthy register after it is written through the API
        for ms in ((100 * tick + 1, 120 * tick) if tick == 125 else (101 * tick,)):
            c = {'slow': True, 'tick': tick, 'nticks': 1, 'ops': {}, 'hraise': {}, 'rules': [], 'ports': [
                H('src', 1), F(tail={'r': [2, ['raise', 'TimeoutError', ms]]}), H('src', 2), H('reg', 3)]}
            cases.append(finish(c, [('at', 3), ('src', 0, 7), ('src', 2, 8), ('api', 3, 101)]))
        # 2. an API write to a healthy register lands while the pass is suspended inside the failing read (first
        #    stall: tick 2 .. 2 + ms), for a read that fails after several ticks / seconds; then outside of it
        for ms, exc in ((6 * tick, 'OSError'), (3000, 'PortTimeout'), (tick // 2 + 20, 'ValueError')):
            c = {'slow': True, 'tick': tick, 'nticks': 1, 'ops': {}, 'hraise': {}, 'rules': [], 'ports': [
                H('src', 1), F(rd={'2': ['raise', exc, ms], '3': ['raise', exc, ms]}), H('reg', 0), H('der', 0, deps=[0, 2], c=1)]}
            cases.append(finish(c, [('at', 2), ('api', 2, 105), ('src', 0, 6), ('api', 2, 106), ('api', 2, 107)]))
        # 3. every read reports SkipRead after waiting a few ticks: every pass is slow, every write lands inside one
        c = {'slow': True, 'tick': tick, 'nticks': 1, 'ops': {}, 'hraise': {}, 'rules': [], 'ports': [
            H('reg', 4), F(tail={'r': [1, ['skip', 3 * tick + 10]]}), H('src', 2), H('reg', 0)]}
        cases.append(finish(c, [('at', 4), ('api', 3, 111), ('api', 0, 112), ('src', 2, 5), ('api', 3, 113)]))
        # 4. a faulty register whose writes fail slowly (API write to it in flight) while a healthy one is written
        c = {'slow': True, 'tick': tick, 'nticks': 1, 'ops': {'3': [['api', 1, 9]]}, 'hraise': {}, 'rules': [], 'ports': [
            H('src', 1), F('reg', wr={'0': ['raise', 'PortTimeout', 4000], '1': ['raise', 'OSError', 30]},
                           rd={'5': ['raise', 'KeyError', 2 * tick]}), H('reg', 0)]}
        cases.append(finish(c, [('at', 4), ('api', 2, 121), ('src', 0, 3), ('api', 2, 122)]))
    return cases


# ------------------------------------------------------------------------------------------------ oracle
def fmt(v):
    return 'n' if v is None else str(v)


def view(case, run):
    ports = case['ports']
    H = [i for i, p in enumerate(ports) if not p['faulty']]
    ev = {i: [] for i in H}
    wr = {i: [] for i in H}
    rd = {i: [] for i in H}
    table = {}
    for e in run['rec']:
        if e[0] == 'ev' and e[1] == 1 and e[2] in ev:
            ev[e[2]].append((fmt(e[3]), fmt(e[4]), e[5]))
        elif e[0] == 'w' and e[1] in wr:
            wr[e[1]].append((e[2], e[3]))
        elif e[0] == 'r' and e[1] in rd:
            rd[e[1]].append(e[3])
        elif e[0] == 'sample':
            table = e[2]
    api = {req: r for req, (pi, r) in run['api'].items() if pi in ev}
    return {'ev': ev, 'wr': wr, 'rd': rd, 'table': {i: table.get(i) for i in H if i in table}, 'api': api}


def stalls(case, run):
    """(start, end, port, outcome) of the faulty reads that took time, run A"""
    out = []
    for i, spans in run.get('spans', {}).items():
        for kind, a, b, o in spans:
            if kind == 'r':
                out.append((a, b, i, o))
    return sorted(out)


def api_times(case, run):
    """req -> (port, submit time relative to t0)"""
    return {e[1]: e[2] for e in run['rec'] if e[0] == 'api'}


def oracle(case, runs, retry):
    """-> None | (message, real, reference). Everything here is a statement about the real hub only."""
    ports = case['ports']
    pr = params(case, retry)
    T = pr['T']
    a, b = runs['A'], runs['B']
    va, vb = view(case, a), view(case, b)
    H = sorted(va['ev'])
    st = stalls(case, a)
    t0a, t0b = a['t0'], b['t0']

    def inside(t):
        for x in st:
            if x[0] - EPS <= t <= x[1] + EPS:
                return x
        return None

    sub = {}
    k_of = {}
    n = 0
    for k in range(case['nticks']):
        for op in case['ops'].get(str(k), []):
            k_of[n] = (k, op[1], op[2])
            n += 1
    # 1. API answers
    for req in sorted(set(va['api']) | set(vb['api'])):
        ra, rb = va['api'].get(req, 'missing'), vb['api'].get(req, 'missing')
        k, pi, v = k_of[req]
        ts = k * T + T / 2
        x = inside(t0a + ts)
        where = (f'while the polling pass was suspended inside the failing read of p{x[2]} (t={x[0] - t0a:.3f}..{x[1] - t0a:.3f})'
                 if x else 'outside any failing read')
        if ra != rb:
            return (f'API write #{req} of {v} to healthy port p{pi}, submitted at t={ts:.4f} {where}, answered {_http(ra)} with the '
                    f'failing ports and {_http(rb)} without them', va['api'], vb['api'])
        if ra != 'ok':
            return (f'API write #{req} of {v} to healthy port p{pi} (t={ts:.4f}) answered {_http(ra)} in both runs; the values '
                    f'written are fresh, 204 is the only right answer', va['api'], vb['api'])
    for req, (pi, r) in a['api'].items():
        if r == 'hung':
            return (f'API write #{req} to port p{pi} was never answered (a write error must be returned to its submitter)', a['api'], None)
    # 2. value-change events per healthy port, as sequences
    for i in H:
        ea = [(o, v) for o, v, _ in va['ev'][i]]
        eb = [(o, v) for o, v, _ in vb['ev'][i]]
        if ea != eb:
            j = next((j for j, (x, y) in enumerate(zip(ea, eb)) if x != y), min(len(ea), len(eb)))
            return (f'value-change events of healthy port p{i} differ from the run without the failing ports from event #{j} on: '
                    f'{ea[j:j + 4]} vs {eb[j:j + 4]} (dmax={pr["dmax"]:.3f}s, stimuli {pr["g"]} ticks apart)', ea, eb)
    # 3. driver writes
    for i in H:
        if va['wr'][i] != vb['wr'][i]:
            return (f'driver writes of healthy port p{i} differ: {va["wr"][i][:8]} vs {vb["wr"][i][:8]} without the failing ports',
                    va['wr'][i], vb['wr'][i])
    # 4. final values
    if va['table'] != vb['table']:
        dd = [f'p{i}: {va["table"].get(i)} vs {vb["table"].get(i)}' for i in H if va['table'].get(i) != vb['table'].get(i)]
        return (f'final values of the healthy ports differ from the run without the failing ports: {", ".join(dd)}', va['table'], vb['table'])
    # 5. (P) every healthy port keeps being polled
    for m, run, v, bound in (('A', a, va, pr['gap']), ('B', b, vb, T)):
        for i in H:
            if not ports[i]['enabled']:
                continue
            ts = [run['t0']] + v['rd'][i] + [run['end']]
            for x, y in zip(ts, ts[1:]):
                if y - x > bound + EPS:
                    return (f'run {m}: healthy port p{i} was not polled between t={x - run["t0"]:.3f} and t={y - run["t0"]:.3f} '
                            f'({y - x:.3f} s); one tick plus the time the failing reads of one pass take is {bound:.3f} s',
                            {'reads': [round(z - run['t0'], 4) for z in v['rd'][i][-6:]]}, None)
    # 6. (E) events are late by at most the time the failing reads take
    for i in H:
        lim = pr['depth'][i] * pr['delay']
        for j, (x, y) in enumerate(zip(va['ev'][i], vb['ev'][i])):
            ta, tb = x[2] - t0a, y[2] - t0b
            if ta > tb + lim + EPS:
                return (f'value-change event #{j} of healthy port p{i} ({x[0]}->{x[1]}) came at t={ta:.3f} with the failing ports and at '
                        f't={tb:.3f} without them: later by more than the failing reads can explain ({lim:.3f} s)',
                        round(ta, 4), round(tb, 4))
    # 7. the faulty ports themselves: last good value kept, not retried before the interval, retried after it
    end = a['end']
    for i, p in enumerate(ports):
        if not p['faulty'] or not p['enabled']:
            continue
        spans = {s[1]: s for s in a['spans'].get(i, []) if s[0] == 'r'}
        reads = a['reads'].get(i, [])
        good = a['init'][i][0]
        for t, o, val in reads:
            if o == 'ok':
                good = val
        smp = [e for e in a['rec'] if e[0] == 'sample'][-1]
        last = smp[2].get(i)
        # a pass may be in flight at the sampling instant: both readings of "the last successful read so far" are accepted
        goods = []
        for lim in (smp[4] - EPS, smp[4] + EPS):
            good = a['init'][i][0]
            for t, o, val in reads:
                if o == 'ok' and t <= lim:
                    good = val
            goods.append(good)
        if last not in goods:
            return (f'faulty port p{i} shows {last} at the end but its last successful read returned {goods[-1]} (a failing port keeps '
                    f'its last good value / recovers with what the driver returns)', last, goods)
        for j, (t, o, _) in enumerate(reads):
            sp = spans.get(t)
            te = sp[2] if sp else t
            if sp and sp[3] == 'cancelled':
                continue            # neither raised nor returned (the pass was torn down): judged by its effects above
            nxt = reads[j + 1][0] if j + 1 < len(reads) else None
            if o == 'raise':
                if nxt is not None and nxt - te < retry - EPS:
                    return (f'faulty port p{i}: read failed at t={te - t0a:.3f} and was retried already at t={nxt - t0a:.3f} '
                            f'(retry interval {retry} s)', reads[j:j + 2], None)
                if nxt is None and end - te > retry + pr['gap'] + pr['dmax'] + T + EPS:
                    return (f'faulty port p{i}: read failed at t={te - t0a:.3f} and was never read again until t={end - t0a:.3f} '
                            f'(retry interval {retry} s)', reads[j:], None)
            elif o == 'skip':
                if nxt is None and end - te > pr['gap'] + pr['dmax'] + T + EPS:
                    return (f'faulty port p{i}: read was skipped at t={te - t0a:.3f} and not read again until t={end - t0a:.3f}',
                            reads[j:], None)
    return None


def _http(r):
    return {'ok': '204 No Content', 'accepted': '202 Accepted', 'hung': 'nothing (never answered)'}.get(r, r)


def tags(case, runs, retry):
    pr = params(case, retry)
    a = runs['A']
    st = stalls(case, a)
    out = {'slow:case', f'slow:tick-{case["tick"]}'}
    for x in st:
        out.add('slow:read-' + dur_class(int(round((x[1] - x[0]) * 1000)), case['tick']) + ('-cancelled' if x[3] == 'cancelled' else ''))
    for i, spans in a.get('spans', {}).items():
        for s in spans:
            if s[0] == 'w':
                out.add('slow:write-' + dur_class(int(round((s[2] - s[1]) * 1000)), case['tick']))
    nfail = sum(1 for e in a['rec'] if e[0] == 'r' and e[2] in ('raise', 'skip') and case['ports'][e[1]]['faulty'])
    if nfail > len(st):
        out.add('slow:read-zero')
    T = pr['T']
    ports = case['ports']
    for k, kind, i in stimuli(case):
        t = a['t0'] + k * T + (T / 2 if kind == 'api' else 0)
        ins = any(x[0] - EPS <= t <= x[1] + EPS for x in st)
        out.add(f'slow:{kind}-{"inside" if ins else "outside"}-failing-read')
        if ins:
            x = next(x for x in st if x[0] - EPS <= t <= x[1] + EPS)
            out.add(f'slow:{kind}-inside-on-port-{"after" if i > x[2] else "before"}-faulty')
    en = [i for i, p in enumerate(ports) if p['enabled']]
    f = [i for i in en if ports[i]['faulty']]
    h = [i for i in en if not ports[i]['faulty']]
    if f and h and min(h) < min(f) and max(h) > max(f):
        out.add('slow:healthy-before-and-after')
    if any(r == 'accepted' for _, r in a['api'].values()):
        out.add('slow:api-accepted')
    return out
