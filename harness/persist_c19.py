"""C19 helper: the repository's in-memory JSON persistence driver with scripted storage faults.

Configured through the public `settings.persist.driver` class path.  Everything is the real driver, except that a write
of a port record (`replace` / `insert` on the collection `ports`) raises OSError while a fault is armed:

  arm('one')   the NEXT write fails, then the fault disarms itself (a single lost write)
  arm('all')   every write fails until `disarm()` (a storage outage)

The harness arms / disarms at scripted virtual instants (e.g. the instant a finite sequence ends).  `STATE['fired']`
counts the failed writes of the running case (a tag of the evidence, never compared).
"""
from qtoggleserver.drivers.persist import JSONDriver

COLLECTION = 'ports'
STATE = {'mode': None, 'fired': 0}


def arm(mode):
    assert mode in ('one', 'all'), mode
    STATE['mode'] = mode


def disarm():
    STATE['mode'] = None


def reset():
    STATE['mode'] = None
    STATE['fired'] = 0


def _maybe_fail(collection):
    if collection != COLLECTION or STATE['mode'] is None:
        return
    if STATE['mode'] == 'one':
        STATE['mode'] = None
    STATE['fired'] += 1
    raise OSError(28, 'No space left on device (injected by the verification harness)')


class FaultyJSONDriver(JSONDriver):
    async def replace(self, collection, id_, record):
        _maybe_fail(collection)
        return await super().replace(collection, id_, record)

    async def insert(self, collection, record):
        _maybe_fail(collection)
        return await super().insert(collection, record)
