"""Scenario runner shared by C12 and C13.

A case is a scripted history for ONE master/slave pair:

  {'mode': 'listen'|'poll', 'latency': s, 'fail': 'refused'|'timeout', 'poll': seconds,
   'ports': [{'id', 'type', 'value', 'writable', 'enabled', 'custom'?}], 'steps': [[op, args…], …]}

  steps  ['wait', dt]
         ['rvalue', pid, v] ['rattr', pid, name, val] ['radd', pid, type, value, extra?] ['rremove', pid] ['rdev', name, val]
         ['rattrdel', pid, name] ['rattrset', pid, name, val]  — the port is reconfigured on the device: an optional
               attribute disappears / (re)appears (port-update event with the port's new attribute set)
               — what the DEVICE does (it emits the events a real device emits)
         ['mvalue', pid, v] ['mattr', pid, name, val] ['mdev', name, val] ['mwebhooks', key, val] ['mreverse', key, val]
               — what a consumer does THROUGH THE MASTER's public API functions
         ['down'] ['await_offline'] ['up'] ['await_online']          — network switch / wait for the master to notice
         ['check']                                                   — observe (GET /ports, GET /devices on the master)
         ['rfail', pid]                                              — the next PATCH the device gets for that port answers 502
         ['announce']                                                — the device changes the value of its first enabled port
                                                                       (display_name of its first port if none is enabled):
                                                                       in mode 'push' this is how a webhook-driven slave
                                                                       "shows up" (its event makes the master push what is
                                                                       pending and refresh its mirror)
         ['restart']                                                 — the master restarts (slaves package torn down and
                                                                       re-loaded from the persisted records)
         ['when', 'listen'|'ports'|'device', delay, [steps…]]        — wait until the device next receives that request,
                                                                       then `delay`, then the nested (device-side) steps:
                                                                       changes timed INTO the reconnect / sync window
  mode 'push': the master neither listens nor polls; the device POSTs its events to /devices/<name>/events (real
  post_slave_device_events API function, device-origin token) with latency `push_latency`
  ports may carry 'slow': 'later'|'never' (value writes answered 202 Accepted and applied later / never) and 'extra':
  {name: value} (further attributes: optional ones such as min/max/step, and — the slave being itself a hub —
  history_* / device_expression / device_history_* which the master must show one `device_` deeper)

`run_real` executes it on the real hub against the simulated slave and returns the observations plus the ordered trace
of everything that reached the master. `run_model` replays that trace, message by message, on the Lean model (driver)
and diffs predictions against observations. `oracle_c13` / `oracle_c12` evaluate the property sentences directly on the
real observations (no model involved).
"""
from __future__ import annotations

import os
import sys
import asyncio
import json
import re

from harness.core import Failure
from harness.simslave_c12 import SimSlave, _call_at_distinct_instant

MASTER_OWNED = {'id', 'tag', 'online', 'last_sync', 'expires', 'provisioning', 'value', 'pending_value'}
NAME = 's1'


_FAMILY_RE = re.compile(r'^(device_)*(expression|history_[a-z0-9_]+)$')
_SHOWN_RE = re.compile(r'^(device_)+(expression|history_[a-z0-9_]+)$')

# names for which the master has a value of its own when the slave reports none (BasePort defaults), or that are not
# attributes of the slave's port at all
MASTER_SIDE = MASTER_OWNED | {'expression', 'history_interval', 'history_retention', 'definitions', 'display_name', 'type',
                              'unit', 'writable', 'enabled', 'persisted', 'internal'}


def master_name(n: str) -> str:
    """Under which name the master shows the slave's attribute `n`: the expression / history family — at any nesting
    depth, a slave that is itself a hub has device_expression next to expression — gets ONE more `device_`."""
    return 'device_' + n if _FAMILY_RE.match(n) else n


def chain_gap(n: str, sj: dict) -> bool:
    """`n` is a device_* attribute of the slave's port whose chain is broken below it: SlavePort.get_standard_attrdefs
    stops at the first missing level (device_history_interval next to no history_interval: a hub without history)."""
    while _SHOWN_RE.match(n):
        n = n[7:]
        if sj.get(n) is None:
            return True
    return False


def slave_name(n: str) -> str:
    """The slave attribute shown under the master's name `n` (exactly one `device_` stripped from the family)."""
    return n[7:] if _SHOWN_RE.match(n) else n


class Interner:
    def __init__(self):
        self.names = {'enabled': 0}
        self.vals = {'false': 0, 'true': 1}
        self.ports = {}

    def name(self, n):
        return self.names.setdefault(n, len(self.names))

    def val(self, v):
        return self.vals.setdefault(json.dumps(v, sort_keys=True), len(self.vals))

    def port(self, p):
        return self.ports.setdefault(p, len(self.ports) + 1)

    def pval(self, v):
        return '~' if v is None else str(self.val(v))

    def attrs(self, d: dict, skip=()):
        items = [f'{self.name(k)}={self.val(v)}' for k, v in d.items() if v is not None and k not in skip]
        return ','.join(items) if items else '-'

    def portmsg(self, pj: dict, with_value=True):
        val = self.pval(pj.get('value')) if (with_value and 'value' in pj) else '!'
        return f'{self.port(pj["id"])}|{self.attrs(pj, skip=("value",))}|{val}'

    def portlist(self, lst, with_value=True):
        return ';'.join(self.portmsg(p, with_value) for p in lst) if lst else '-'

    def event(self, ev: dict):
        t, p = ev['type'], ev.get('params', {})
        if t == 'value-change':
            return f'vc:{self.port(p["id"])}:{self.pval(p.get("value"))}'
        if t == 'port-update':
            return 'pu:' + self.portmsg(p)
        if t == 'port-add':
            return 'pa:' + self.portmsg(p)
        if t == 'port-remove':
            return f'pr:{self.port(p["id"])}'
        if t == 'device-update':
            return 'du:' + self.attrs(dev_clean(p))
        return None


def flat_steps(case):
    out = []
    for st in case['steps']:
        if st[0] == 'when':
            out.extend(st[3])
        else:
            out.append(st)
    return out


def dev_clean(d: dict) -> dict:
    return {k: v for k, v in d.items() if k not in ('uptime', 'date')}


class Real:
    """Outcome of the real run."""

    def __init__(self):
        self.trace = []          # ordered: sim deliveries/failures, captured master events, runner markers
        self.checks = []         # observations at ['check'] steps
        self.edits = []          # master-side edits: dict(step, t, result, sent(bool), obs_after)
        self.windows = []        # outages: dict(t_down, t_offline, t_up, idx_log_up, …)
        self.restarts = []       # master restarts: dict(idx, t, before, after)
        self.log = []
        self.value_log = {}
        self.sim_final = None
        self.add_result = None
        self.overflowed = False


async def run_real(hub, case) -> Real:
    r = Real()
    sim = SimSlave(NAME)
    sim.latency = case.get('latency', 0.01)
    sim.fail_mode = case.get('fail', 'refused')
    sim.trace = r.trace
    hub.captured = r.trace
    for p in case['ports']:
        defs = {}
        extra = {}
        if p.get('custom'):
            defs = {'color': {'type': 'string', 'modifiable': True, 'display_name': 'Color'}}
            extra = {'color': p['custom']}
        extra.update(p.get('extra') or {})
        sim.add_port(p['id'], p['type'], p['value'], p.get('writable', True), p.get('enabled', True), extra=extra,
                     definitions=defs, event=False)
        if p.get('slow'):
            sim.slow[p['id']] = p['slow']
    mode = case['mode']
    push_tasks = []
    try:
        r.add_result = await hub.add_slave(sim, mode, case.get('poll', 2))
        if r.add_result[0] != 'ok':
            return r
        await asyncio.sleep(4 + 2 * case.get('poll', 2) * (mode == 'poll'))
        r.trace.append(('started',))
        if mode == 'push':
            def pusher(ev):
                def start():
                    if not sim.reachable:
                        return                     # the device cannot reach the master either: the event is lost
                    r.trace.append(('pushed', round(hub.loop.time(), 6), ev))
                    push_tasks.append(asyncio.ensure_future(hub.post_event(NAME, ev)))
                _call_at_distinct_instant(hub.loop, case.get('push_latency', sim.latency), start)
            sim.pusher = pusher

        async def remote_step(st):
            op = st[0]
            if op == 'wait':
                await asyncio.sleep(st[1])
            elif op == 'rvalue':
                if st[1] in sim.ports:
                    sim.set_value(st[1], st[2])
            elif op == 'rattr':
                if st[1] in sim.ports and (st[2] in sim.ports[st[1]]['attrs']):
                    sim.set_port_attrs(st[1], {st[2]: st[3]})
            elif op == 'rattrdel':           # the port is reconfigured: an optional attribute disappears
                if st[1] in sim.ports:
                    sim.del_port_attr(st[1], st[2])
            elif op == 'rattrset':           # … (re)appears / changes
                if st[1] in sim.ports:
                    sim.set_port_attrs(st[1], {st[2]: st[3]})
            elif op == 'radd':
                if st[1] not in sim.ports:
                    sim.add_port(st[1], st[2], st[3], extra=(st[4] if len(st) > 4 else None))
            elif op == 'rremove':
                sim.remove_port(st[1])
            elif op == 'rdev':
                sim.set_device_attrs({st[1]: st[2]})
            elif op == 'rfail':
                sim.fail_next.add(st[1])
            elif op == 'rdrop':
                sim.drop_next.add(st[1])
            elif op == 'announce':
                en = [pid for pid, p_ in sim.ports.items() if p_['attrs'].get('enabled')]
                if en:
                    cur = sim.ports[en[0]]['value']
                    sim.set_value(en[0], (not cur) if isinstance(cur, bool) else (cur or 0) + 1)
                elif sim.ports:
                    pid = next(iter(sim.ports))
                    cur = sim.ports[pid]['attrs'].get('display_name')
                    sim.set_port_attrs(pid, {'display_name': 'here' if cur != 'here' else 'here again'})
            elif op == 'flapdown':
                sim.set_reachable(False)
            elif op == 'flapup':
                sim.set_reachable(True)

        window = None
        for idx, st in enumerate(case['steps']):
            op = st[0]
            if op in ('wait', 'rvalue', 'rattr', 'rattrdel', 'rattrset', 'radd', 'rremove', 'rdev', 'rfail', 'rdrop', 'flapdown', 'flapup',
                      'announce'):
                await remote_step(st)
            elif op == 'restart':
                before = await observe(hub, sim)
                r.trace.append(('restart',))
                await hub.restart_slaves()
                for _ in range(5):
                    await asyncio.sleep(0)
                if mode == 'push':
                    # a slave that is neither listened to nor polled gets its ports re-created from the persisted records
                    # by a fire-and-forget task started from enable()
                    await asyncio.sleep(0.2)
                after = await observe(hub, sim)
                r.restarts.append({'idx': idx, 't': hub.loop.time(), 'before': before, 'after': after,
                                   'log_len': len(sim.log)})
            elif op == 'when':
                want = {'listen': '/listen', 'ports': '/ports', 'device': '/device', 'push': None}[st[1]]
                n0 = len(sim.log)
                for _ in range(12000):
                    if any((e['method'] == 'GET' and e['path'].rstrip('/') == want) if want else e['method'] != 'GET'
                           for e in sim.log[n0:]):
                        break
                    await asyncio.sleep(0.005)
                await asyncio.sleep(st[2])
                for sub in st[3]:
                    await remote_step(sub)
            elif op in ('mvalue', 'mattr', 'mdev', 'mwebhooks', 'mreverse'):
                n0 = len(sim.log)
                r.trace.append(('op-begin', idx, st))
                if op == 'mvalue':
                    res = await hub.patch_port_value(f'{NAME}.{st[1]}', st[2])
                elif op == 'mattr':
                    res = await hub.patch_port(f'{NAME}.{st[1]}', {master_name(st[2]): st[3]})
                elif op == 'mdev':
                    res = await hub.forward(NAME, 'PATCH', '/device', {st[1]: st[2]})
                elif op == 'mwebhooks':
                    res = await hub.forward(NAME, 'PATCH', '/webhooks', {st[1]: st[2]})
                else:
                    res = await hub.forward(NAME, 'PATCH', '/reverse', {st[1]: st[2]})
                for _ in range(3):
                    await asyncio.sleep(0)
                sent = [e for e in sim.log[n0:] if e['method'] != 'GET']
                obs = await observe(hub, sim)
                r.edits.append({'idx': idx, 'step': st, 't': hub.loop.time(), 'result': list(res[:1]) + [
                    x for x in res[1:] if isinstance(x, (int, str))], 'sent': bool(sent), 'obs': obs,
                    'window': len(r.windows) - 1 if window is not None else None})
                r.trace.append(('op-end', idx, st, res[0], bool(sent)))
            elif op == 'down':
                if window is None:
                    window = {'t_down': hub.loop.time(), 't_offline': None, 't_up': None, 'log_up': None,
                              'ports_at_up': None}
                    r.windows.append(window)
                    sim.set_reachable(False)
            elif op == 'await_offline':
                for _ in range(400):
                    d = (await hub.get_devices())
                    if d and not d[0]['online']:
                        if window is not None and window['t_offline'] is None:
                            window['t_offline'] = hub.loop.time()
                        break
                    await asyncio.sleep(0.5)
            elif op == 'up':
                if window is not None:
                    window['t_up'] = hub.loop.time()
                    window['log_up'] = len(sim.log)
                    window['ports_at_up'] = sorted(sim.ports)
                    window['obs_before_up'] = await observe(hub, sim)
                    sim.set_reachable(True)
                    window = None
            elif op == 'await_online':
                # online AND the refresh of the mirror has been answered (the master sets its online flag before it
                # pushes the pending data)
                lu = r.windows[-1]['log_up'] if r.windows and r.windows[-1]['log_up'] is not None else 0
                for _ in range(400):
                    d = (await hub.get_devices())
                    if d and (d[0]['online'] or mode == 'push') and any(e['method'] == 'GET' and e['path'].rstrip('/') == '/ports'
                                                    and e.get('status') == 200 for e in sim.log[lu:]):
                        break
                    await asyncio.sleep(0.5)
                await asyncio.sleep(1.5 + 6 * sim.latency + 2 * case.get('poll', 2) * (mode == 'poll'))
                sim.fail_next.clear()          # injected faults are meant for the pushes of this reconnect only
                sim.drop_next.clear()
            elif op == 'check':
                await asyncio.sleep(1.0 + 2 * case.get('poll', 2) * (mode == 'poll') +
                                    (3.0 + 10 * sim.latency) * (mode == 'push'))
                # "once the master has processed everything the slave reported": no request in flight, nothing left in
                # the slave's session queue, the master back in its long-poll (= the delivered batch has been handled,
                # including value fetches made while handling it), then a few ticks for the one-value-per-tick queue
                t_end = hub.loop.time() + 30
                while hub.loop.time() < t_end:
                    busy = sim.inflight > 0 or bool(push_tasks and not all(t_.done() for t_ in push_tasks))
                    if mode == 'listen' and sim.reachable and sim.sessions:
                        busy = busy or any(s_.queue for s_ in sim.sessions.values()) or \
                            not any(s_.waiter for s_ in sim.sessions.values())
                    if not busy:
                        break
                    await asyncio.sleep(0.05)
                await asyncio.sleep(0.3)
                obs = await observe(hub, sim)
                obs['idx'] = idx
                r.checks.append(obs)
                r.trace.append(('check', len(r.checks) - 1))
    finally:
        r.log = list(sim.log)
        r.value_log = {k: list(v) for k, v in sim.value_log.items()}
        r.sim_final = {'ports': {pid: sim.port_json(pid) for pid in sim.ports}, 'device': dev_clean(sim.device_json()),
                       'webhooks': dict(sim.webhooks), 'reverse': dict(sim.reverse)}
        r.overflowed = sim.overflowed
        sim.pusher = None
        for t_ in push_tasks:
            if not t_.done():
                t_.cancel()
        hub.captured = []
        sim.trace = []
        try:
            await hub.cleanup_case()
        finally:
            sim.close()
    return r


async def observe(hub, sim) -> dict:
    ports = await hub.get_ports()
    devs = await hub.get_devices()
    dev = devs[0] if devs else None
    mine = {p['id'][len(NAME) + 1:]: p for p in ports if p['id'].startswith(NAME + '.')}
    persisted = {}
    for rid in mine:
        try:
            rec = await hub.persist.get('slave_ports', f'{NAME}.{rid}')
            persisted[rid] = None if rec is None else rec.get('value')
        except Exception:
            persisted[rid] = 'n/a'
    return {
        't': hub.loop.time(),
        'master': mine,
        'persisted_value': persisted,
        'device': None if dev is None else {'online': dev['online'], 'provisioning': sorted(dev['provisioning']),
                                            'attrs': dev_clean(dev['attrs'])},
        'slave': {pid: sim.port_json(pid) for pid in sim.ports},
        'slave_device': dev_clean(sim.device_json()),
        'reachable': sim.reachable,
    }


# ----------------------------------------------------------------------------------------------------------------
# Model replay
# ----------------------------------------------------------------------------------------------------------------

def canon_real_ports(obs, it: Interner, names_of, master_name=master_name):
    """Master's view of the slave ports, in the model's vocabulary (`master_name`: under which name the master shows a
    slave attribute — the model's `presentName` when replaying on the driver)."""
    out = {}
    for rid, pj in obs['master'].items():
        attrs = {}
        hidden = set()
        for n in names_of.get(rid, ()):      # slave-side names the slave reported for this port
            if n in MASTER_OWNED:
                continue
            mn = master_name(n)
            if mn in pj and pj[mn] is not None:
                attrs[it.name(n)] = it.val(pj[mn])
            elif _SHOWN_RE.match(n):
                hidden.add(it.name(n))      # not shown by the master: compared by the oracle (chain_gap), not here
        prov = sorted(it.name(n) for n in pj.get('provisioning', []) if n != 'value')
        out[it.port(rid)] = {'value': it.pval(pj.get('value')),
                             'prov': prov, 'prov_value': 'value' in pj.get('provisioning', []), 'attrs': attrs,
                             'hidden': hidden}
    return out


def parse_model_state(rep: str, it: Interner):
    assert rep.startswith('ok '), rep
    body = rep[3:]
    ports_s, rest = body.split(' ', 1)
    tail = dict(kv.split('=', 1) for kv in rest.split(' '))
    own_names = {it.names.get(n) for n in MASTER_OWNED}
    ports = {}
    if ports_s != '-':
        for ps in ports_s.split(';'):
            pid, en, last_read, last_remote, prov, pv, attrs, cached = ps.split('|')
            ad = {}
            if attrs != '-':
                for kv in attrs.split(','):
                    k, v = kv.split('=')
                    if int(k) not in own_names:
                        ad[int(k)] = int(v)
            ports[int(pid)] = {'en': en == '1', 'value': last_read if en == '1' else '~',
                               'prov': sorted(int(x) for x in prov.split(',')) if prov != '-' else [],
                               'prov_value': pv == '1', 'attrs': ad, 'cached': cached}
    return ports, tail


def kv_attrs(s):
    return {} if s == '-' else {int(k): int(v) for k, v in (kv.split('=') for kv in s.split(','))}


def norm_req_model(tok: str):
    if tok.startswith('PD{'):
        return ('PATCH', '/device', tuple(sorted(kv_attrs(tok[3:-1]).items())))
    if tok.startswith('PW{'):
        return ('PUT', '/webhooks', tuple(sorted(kv_attrs(tok[3:-1]).items())))
    if tok.startswith('PR{'):
        return ('PUT', '/reverse', tuple(sorted(kv_attrs(tok[3:-1]).items())))
    if tok.startswith('PP:'):
        i, b = tok[3:].split('{')
        return ('PATCH', f'/ports/{i}', tuple(sorted(kv_attrs(b[:-1]).items())))
    if tok.startswith('PV:'):
        _, i, v = tok.split(':')
        return ('PATCH', f'/ports/{i}/value', v)
    return {'GW': ('GET', '/webhooks', None), 'GR': ('GET', '/reverse', None), 'GD': ('GET', '/device', None),
            'GP': ('GET', '/ports', None)}.get(tok, ('GET', tok, None))


def norm_req_real(method, path, body, it: Interner):
    parts = path.strip('/').split('/')
    if parts[0] == 'ports' and len(parts) >= 2:
        pid = it.port(parts[1])
        if len(parts) == 3 and parts[2] == 'value':
            return (method, f'/ports/{pid}/value', '!' if body is None else it.pval(body))
        if method == 'GET':
            return (method, f'/ports/{pid}', None)
        return (method, f'/ports/{pid}', tuple(sorted((it.name(k), it.val(v)) for k, v in (body or {}).items())))
    if method == 'GET':
        return (method, path.rstrip('/'), None)
    return (method, path.rstrip('/'), tuple(sorted((it.name(k), it.val(v)) for k, v in (body or {}).items())))


def run_model(case, real: Real, driver, fix=(1, 1, 1)):
    """Replays the trace on the model. Returns (Failure|None, tags)."""
    it = Interner()
    mode = case['mode']
    tags = set()
    started = False
    init = {}
    names_of = {}          # rid -> attribute names the slave reported (for canonicalising the master's JSON)
    model_online = True
    window = None          # reconnect in progress (listen) / poll cycle in progress
    in_op = None
    real_series = {}       # port -> values reported by the master's value-change events since the last check
    fail = None

    def note_names(pj):
        names_of.setdefault(pj['id'], set()).update(k for k, v in pj.items() if v is not None)

    model_series = {}
    model_cum, real_cum = {}, {}

    # the name under which the master shows a slave attribute is asked from the MODEL (Names.presentName over the live
    # module's MASTER_ATTRS), so that the mirror comparison below also ties get_attr's name mapping to the model
    try:
        from qtoggleserver.slaves import ports as _sp
        owned = ','.join(sorted(_sp.MASTER_ATTRS))
    except Exception:
        owned = None
    present_cache = {}

    def model_present(n):
        if owned is None or not re.fullmatch(r'[a-z0-9_]+', n):
            return master_name(n)
        if n not in present_cache:
            rep = driver.ask(f'present-name {owned} {n}')
            if not rep.startswith('ok '):
                raise AssertionError(f'model rejected present-name {n}: {rep}')
            present_cache[n] = rep[3:].strip()
        return present_cache[n]

    def ask(line, nodrain=False):
        if not nodrain and line.split(' ', 1)[0] not in ('begin', 'drain', 'observe'):
            drain_model()
        rep = driver.ask(line)
        if os.environ.get('VERIF_C12_DEBUG'):
            print('MODEL', line[:200], '->', rep[:200], file=sys.stderr)
        if not rep.startswith('ok'):
            raise AssertionError(f'model rejected {line!r}: {rep}')
        return rep

    def drain_model():
        # the hub's polling loop ticks every 50 ms: queued values are read out between any two messages
        rep = ask('drain')
        if rep[3:].strip():
            for part in rep[3:].strip().split(';'):
                pid, vals = part.split(':')
                model_series.setdefault(int(pid), []).extend(vals.split(','))

    def finish_window(dev, ports, kind):
        nonlocal window, model_online, fail
        refused = sorted({it.port(p.split('/')[2]) for (m, p, b, c) in window['pushes']
                          if p.endswith('/value') and c not in (200, 204)})
        rf = ','.join(map(str, refused)) if refused else '-'
        devs = '?' if dev is None else it.attrs(dev_clean(dev))
        if ports is not None:
            for pj in ports:
                note_names(pj)
        if kind == 'online':
            pl = '?' if ports is None else it.portlist(ports)
            rep = ask(f'{"sync" if mode == "push" else "online"} {rf} {devs} {pl}')
        else:
            pl = '?' if ports is None else it.portlist(ports, with_value=True)
            rep = ask(f'poll {rf} {devs} {pl}')
        model_reqs = [norm_req_model(t) for t in rep[3:].split()]
        real_reqs = [norm_req_real(m, p, b, it) for (m, p, b, c) in window['reqs']]
        # GETs of single values (handle_enable) are not part of the reconnect sequence
        real_reqs = [q for q in real_reqs if not (q[0] == 'GET' and q[1].startswith('/ports/'))]
        if kind == 'poll':
            real_reqs = [q for q in real_reqs if q != ('GET', '/device', None)]
        if ports is None or (kind == 'online' and dev is None):
            # failed refresh: compare the pushes only
            model_reqs = [q for q in model_reqs if q[0] != 'GET']
            real_reqs = [q for q in real_reqs if q[0] != 'GET']
        if mode == 'push':
            # provisioning & update runs overlap when events keep coming (each is started 1 s after an event and is
            # not cancelled once running): their requests interleave; only their effects are compared
            model_reqs = real_reqs = []
        if model_reqs != real_reqs and fail is None:
            fail = Failure('correspondence', f'requests of the reconnect/poll at t={window["t"]}: real {real_reqs} '
                           f'model {model_reqs}', real=real_reqs, model=model_reqs, where='handleOnline/pollOnce')
        if any(q[0] != 'GET' for q in real_reqs):
            tags.add('reconnect-with-pushes')
        model_online = ports is not None and not (kind == 'online' and dev is None)
        if ports is not None:
            after_restart[0] = False
        if mode == 'push':
            model_online = False           # a slave that is neither listened to nor polled is never "online"
        window = None

    consumed = set()
    stopped = [False]
    after_restart = [False]     # a replayed restart (mode push) not yet followed by a completed refresh of the mirror
    unstable = {it.port(p['id']) for p in case['ports'] if not p.get('enabled', True)}
    unstable |= {it.port(st[1]) for st in flat_steps(case)
                 if st[0] == 'rremove' or (st[0] in ('rattr', 'mattr') and st[2] == 'enabled')}

    def take_value_response(pos, rid):
        # handle_enable awaits GET /ports/<id>/value INSIDE the handling of the event that enabled the port: its
        # answer is processed before the remaining events of the batch
        for j in range(pos + 1, len(real.trace)):
            x = real.trace[j]
            if x[0] in ('deliver', 'fail') and x[2] == 'GET' and x[3].rstrip('/') == f'/ports/{rid}/value' \
                    and j not in consumed:
                consumed.add(j)
                # the handler is suspended until the answer arrives: whatever reaches the master meanwhile (answers to
                # other requests, a consumer's write) is processed first, and the hub keeps ticking
                for k in range(pos + 1, j):
                    if k not in consumed:
                        consumed.add(k)
                        handle_entry(k, real.trace[k])
                drain_model()
                if x[0] == 'deliver' and x[5] == 200:
                    ask(f'value-resp {it.port(rid)} {it.pval(x[6])}', nodrain=True)
                return

    rid_of = {}
    def handle_entry(pos, e):
        nonlocal started, window, in_op, real_series, fail, model_online
        tag = e[0]
        if tag == 'deliver' or tag == 'fail':
            _, t, method, path, body, code, resp = e
            path = path.rstrip('/') or '/'
            ok = tag == 'deliver' and code in (200, 201, 204)
            if not started:
                if ok and method == 'GET' and path == '/device':
                    init['dev'] = resp
                elif ok and method == 'GET' and path == '/webhooks':
                    init['wh'] = resp
                elif ok and method == 'GET' and path == '/reverse':
                    init['rv'] = resp
                elif ok and method == 'GET' and path == '/ports':
                    for pj in resp:
                        note_names(pj)
                    flags = init.get('dev', {}).get('flags', [])
                    mmode = 'poll' if mode == 'poll' else 'listen'
                    ask(f'begin {mmode} {fix[0]} {fix[1]} {fix[2]} {int("webhooks" in flags)} {int("reverse" in flags)} '
                        f'{it.attrs(dev_clean(init.get("dev", {})))} {it.attrs(init.get("wh", {}))} '
                        f'{it.attrs(init.get("rv", {}))} {it.portlist(resp, with_value=(mode != "poll"))}')
                    if mode == 'push':
                        ask('offline')
                        model_online = False
                    started = True
                return
            # ---- user edits travelling to the slave while the master is online
            if in_op is not None and method in ('PATCH', 'PUT') and _is_op_request(in_op, path):
                st = in_op
                if st[0] == 'mvalue' and path.endswith('/value'):
                    ask(f'edit-value {it.port(st[1])} {it.val(st[2])} {int(ok)}')
                    tags.add('online-write')
                elif st[0] == 'mattr':
                    ask(f'edit-attr {it.port(st[1])} {it.name(st[2])} {it.val(st[3])}')
                    tags.add('online-attr-edit')
                elif st[0] == 'mdev':
                    ask(f'edit-dev {it.name(st[1])} {it.val(st[2])}')
                return
            if method == 'GET' and path.startswith('/ports/') and path.endswith('/value'):
                if ok:
                    ask(f'value-resp {it.port(path.split("/")[2])} {it.pval(resp)}')
                return
            if mode == 'push' and window is None:
                window = {'t': t, 'reqs': [], 'pushes': [], 'dev': None}     # a provisioning & update run
            if mode in ('listen', 'push'):
                if window is not None:
                    window['reqs'].append((method, path, body, code))
                    if method != 'GET':
                        window['pushes'].append((method, path, body, code))
                    elif path == '/device':
                        if ok:
                            window['dev'] = resp
                        else:
                            finish_window(None, None, 'online')
                    elif path == '/ports':
                        finish_window(window['dev'], resp if ok else None, 'online')
                    return
                if method == 'GET' and path == '/listen' and ok:
                    evs = [it.event(x) for x in resp]
                    for x in resp:
                        if x['type'] in ('port-update', 'port-add'):
                            note_names(x['params'])
                        tags.add('ev-' + x['type'])
                    evs = [x for x in evs if x]
                    rep = ask('events -')
                    for ev in evs:
                        # The handlers of one batch may yield to the event loop (port.remove() awaits the cancelled
                        # port tasks, handle_enable awaits a value fetch), so a hub tick can fall between two events of
                        # a batch. The model therefore reads at every opportunity (before each event); which values
                        # get reported does not depend on when they are read, except for a port removed / disabled
                        # right after a push, where the real series may be shorter (subsequence rule at the checks).
                        rep = ask('events ' + ev)
                        for tok in rep.split()[2:]:
                            if tok.startswith('GV:'):
                                k = int(tok[3:])
                                rid = next(r_ for r_, n_ in it.ports.items() if n_ == k)
                                take_value_response(pos, rid)
                    if 'online=0' in rep:
                        window = {'t': t, 'reqs': [], 'pushes': [], 'dev': None}
                        if evs:
                            tags.add('events-before-provisioning')
            else:
                if method == 'GET' and path == '/device':
                    if ok:
                        window = {'t': t, 'reqs': [], 'pushes': [], 'dev': resp}
                    return
                if window is not None:
                    window['reqs'].append((method, path, body, code))
                    if method != 'GET':
                        window['pushes'].append((method, path, body, code))
                    elif path == '/ports':
                        finish_window(window['dev'], resp if ok else None, 'poll')
        elif tag == 'started':
            pass
        elif tag == 'restart':
            tags.add('restart')
            if mode == 'push' and started:
                # webhook-driven slave: the ports are rebuilt from the persisted records (Model/SlaveRestart.lean,
                # restartPermOffline with the pending value restored as load_from_data does since 8847295)
                ask('restart-permoff 1')
                window = None
                after_restart[0] = True
                tags.add('restart-replayed')
            else:
                # listening / polling slave: what survives a restart there is not modelled; the replay stops here, the
                # oracle goes on
                stopped[0] = True
        elif tag == 'pushed':
            ev = it.event(e[2])
            if e[2]['type'] in ('port-update', 'port-add'):
                note_names(e[2]['params'])
            tags.add('ev-' + e[2]['type'])
            if ev:
                rep = ask('events ' + ev)
                for tok in rep.split()[2:]:
                    if tok.startswith('GV:'):
                        k = int(tok[3:])
                        take_value_response(pos, next(r_ for r_, n_ in it.ports.items() if n_ == k))
        elif tag == 'op-begin':
            in_op = e[2]
        elif tag == 'op-end':
            _, idx, st, res, sent = e
            in_op = None
            if not sent and res in ('ok', 'accepted'):
                if st[0] == 'mvalue':
                    ask(f'edit-value {it.port(st[1])} {it.val(st[2])} 1')
                elif st[0] == 'mattr':
                    ask(f'edit-attr {it.port(st[1])} {it.name(st[2])} {it.val(st[3])}')
                elif st[0] == 'mdev':
                    ask(f'edit-dev {it.name(st[1])} {it.val(st[2])}')
                elif st[0] == 'mwebhooks':
                    ask(f'edit-webhooks {it.name(st[1])}={it.val(st[2])}')
                elif st[0] == 'mreverse':
                    ask(f'edit-reverse {it.name(st[1])}={it.val(st[2])}')
                tags.add('offline-' + st[0])
        elif tag == 'check':
            obs = real.checks[e[1]]
            drain_model()
            for k, v in model_series.items():
                model_cum.setdefault(k, []).extend(v)
            model_series.clear()
            for k, v in real_series.items():
                real_cum.setdefault(k, []).extend(v)
            real_series = {}
            mports, tail = parse_model_state(ask('observe'), it)
            rports = canon_real_ports(obs, it, names_of, model_present)
            mcmp = {k: {x: y for x, y in v.items() if x not in ('cached', 'en')} for k, v in mports.items()}
            for k, v in rports.items():
                hid = v.pop('hidden')
                if k in mcmp and hid:
                    mcmp[k]['attrs'] = {x: y for x, y in mcmp[k]['attrs'].items() if x not in hid}
            if after_restart[0]:
                # between a restart and the next completed refresh the record read back is the one of the last save
                # (the model takes the state at the restart): only what the property is about is compared — which
                # names are pending and the user's values of the pending attributes (the pending value: below)
                tags.add('checked-between-restart-and-refresh')
                for cmp_ in (rports, mcmp):
                    for v in cmp_.values():
                        v.pop('value', None)
                        v['attrs'] = {x: y for x, y in v['attrs'].items() if x in v['prov']}
            if rports != mcmp:
                bad = sorted(set(rports) ^ set(mcmp)) or [k for k in rports if rports[k] != mcmp[k]]
                fail = Failure('correspondence', f'check #{e[1]}: master GET /ports differs from the model for port(s) '
                               f'{bad}: real {[rports.get(b) for b in bad]} model {[mcmp.get(b) for b in bad]}',
                               real=rports, model=mcmp, where='mirror')
                return
            # pending user values (persisted `value` of the port record while 'value' is pending)
            for rid, pv in obs['persisted_value'].items():
                k = it.port(rid)
                if k in mports and mports[k]['prov_value'] and pv != 'n/a':
                    if it.pval(pv) != mports[k]['cached']:
                        fail = Failure('correspondence', f'check #{e[1]}: pending value kept for {rid}: real {pv!r} '
                                       f'model {mports[k]["cached"]}', where='cached value')
            if obs['device'] is not None:
                rdp = sorted(it.name(n) for n in obs['device']['provisioning'] if n not in ('webhooks', 'reverse'))
                mdp = sorted(int(x) for x in tail['devprov'].split(',')) if tail['devprov'] != '-' else []
                rflags = (int('webhooks' in obs['device']['provisioning']), int('reverse' in obs['device']['provisioning']))
                mflags = (int(tail['wh']), int(tail['rv']))
                if (rdp, rflags) != (mdp, mflags) and fail is None:
                    fail = Failure('correspondence', f'check #{e[1]}: device provisioning real {rdp} {rflags} model '
                                   f'{mdp} {mflags}', where='device provisioning')
                if bool(obs['device']['online']) != (tail['online'] == '1') and fail is None:
                    fail = Failure('correspondence', f'check #{e[1]}: online real {obs["device"]["online"]} model '
                                   f'{tail["online"]}', where='online flag')
            # WHICH values the master reports, per port, over the whole history (not when: a port removed or disabled
            # within one tick of a queued value reports that value later, or never if it stays away)
            # Polling: the property speaks about the series only "with listening or pushed events"; a poll pass is not
            # atomic either (handle_enable's value fetch suspends it while other answers arrive), so between two polls
            # the master may report a stale value once before converging. Only the values at the checks are compared.
            for k in (set(real_cum) | set(model_cum)) if mode == 'listen' else ():
                rc, mc = real_cum.get(k, []), model_cum.get(k, [])
                live = k in mports and mports[k]['en']
                if k in unstable:
                    # removed / disabled at some point: a value queued within one tick of the removal may never be read
                    # (the model reads at every opportunity): the real series is a subsequence of the model's
                    itr = iter(mc)
                    okk = all(any(x == y for y in itr) for x in rc)
                else:
                    okk = (rc == mc) if live else (rc == mc[:len(rc)])
                if not okk and fail is None:
                    fail = Failure('correspondence', f'check #{e[1]}: value-change series reported by the master for '
                                   f'port {k}: real {rc} model {mc}', real=rc, model=mc, where='drain')
        elif isinstance(tag, float):
            _, typ, params = e
            if not started:
                return
            if typ == 'value-change' and params['id'].startswith(NAME + '.'):
                real_series.setdefault(it.port(params['id'][len(NAME) + 1:]), []).append(it.pval(params['value']))
            elif typ == 'slave-device-update' and params.get('online') is False and model_online:
                ask('offline')
                model_online = False
                tags.add('went-offline')
            elif typ == 'slave-device-update' and params.get('online') is True:
                model_online = True

    for pos, e in enumerate(real.trace):
        if fail is not None:
            break
        if pos in consumed:
            continue
        handle_entry(pos, e)
        if stopped[0]:
            break
    return fail, tags


def _is_op_request(st, path):
    if st[0] == 'mvalue':
        return path == f'/ports/{st[1]}/value'
    if st[0] == 'mattr':
        return path == f'/ports/{st[1]}'
    if st[0] == 'mdev':
        return path == '/device'
    return path in ('/webhooks', '/reverse')


# ----------------------------------------------------------------------------------------------------------------
# Property oracles, evaluated on the real observations only
# ----------------------------------------------------------------------------------------------------------------

def oracle_c13(case, real: Real):
    """C13 sentence by sentence. Returns (Failure|None, tags)."""
    tags = set()
    # ports the DEVICE removed during an outage (even if it re-created them): the edited port is gone
    removed_in_window, wcount, inside = {}, -1, False
    for st in flat_steps(case):
        if st[0] == 'down' and not inside:
            wcount += 1
            inside = True
        elif st[0] == 'up':
            inside = False
        elif st[0] == 'rremove' and inside:
            removed_in_window.setdefault(wcount, set()).add(st[1])
    # master restarts: what is reported as pending afterwards is what was pending (and not yet pushed) before
    for ri, rs_ in enumerate(real.restarts):
        b, a = rs_['before']['device'], rs_['after']['device']
        if b is None or a is None:
            continue
        tags.add('restart-checked')
        if sorted(b['provisioning']) != sorted(a['provisioning']):
            return Failure('property', f'master restart #{ri} (step {rs_["idx"]}): device data reported as pending before '
                           f'the restart {sorted(b["provisioning"])}, after it {sorted(a["provisioning"])}',
                           real=[b['provisioning'], a['provisioning']], where='restart-pending'), tags
        for n in a['provisioning']:
            if n not in ('webhooks', 'reverse') and a['attrs'].get(n) != b['attrs'].get(n):
                return Failure('property', f'master restart #{ri}: pending device attribute {n} changed from '
                               f'{b["attrs"].get(n)!r} to {a["attrs"].get(n)!r}', where='restart-kept'), tags
        # a slave that is neither listened to nor polled gets its PORTS back from the persisted records right away:
        # what was pending on a port before the restart is pending afterwards, with the user's values
        if case['mode'] != 'push':
            continue
        for rid, pb in rs_['before']['master'].items():
            if not pb.get('provisioning'):
                continue
            pa = rs_['after']['master'].get(rid)
            tags.add('restart-port-checked')
            if pa is None or sorted(pa.get('provisioning', [])) != sorted(pb['provisioning']):
                return Failure('property', f'master restart #{ri} (step {rs_["idx"]}): edits of {rid} reported as pending '
                               f'before the restart {sorted(pb["provisioning"])}, after it '
                               f'{None if pa is None else sorted(pa.get("provisioning", []))}',
                               where='restart-port-pending'), tags
            for n in pb['provisioning']:
                if n != 'value' and pa.get(master_name(n)) != pb.get(master_name(n)):
                    return Failure('property', f'master restart #{ri}: pending attribute {rid}.{n} changed from '
                                   f'{pb.get(master_name(n))!r} to {pa.get(master_name(n))!r}',
                                   where='restart-port-kept'), tags
            if 'value' in pb['provisioning']:
                vb, va = rs_['before']['persisted_value'].get(rid, 'n/a'), rs_['after']['persisted_value'].get(rid, 'n/a')
                if 'n/a' not in (vb, va) and vb != va:
                    return Failure('property', f'master restart #{ri}: pending value of {rid} changed from {vb!r} to '
                                   f'{va!r}', where='restart-port-kept'), tags
    for wi, w in enumerate(real.windows):
        if w['t_up'] is None or w['t_offline'] is None:
            continue
        edits = [ed for ed in real.edits if ed['window'] == wi and ed['t'] >= w['t_offline']
                 and ed['result'][0] in ('ok', 'accepted') and not ed['sent']]
        if not edits:
            continue
        tags.add('outage-with-offline-edits')
        pend_attr, pend_val, pend_dev, pend_wh, pend_rv = {}, {}, {}, {}, {}
        for ed in edits:
            st = ed['step']
            obs = ed['obs']
            # (1) reported as pending, right after the edit
            if st[0] == 'mattr':
                pend_attr[(st[1], st[2])] = st[3]
                pj = obs['master'].get(st[1])
                if pj is None or st[2] not in pj.get('provisioning', []):
                    return Failure('property', f'step {ed["idx"]} {st}: attribute edited while the slave is offline is '
                                   f'not reported as pending: provisioning={None if pj is None else pj.get("provisioning")}',
                                   real=pj, where='reported-pending'), tags
                if pj.get(master_name(st[2])) != st[3]:
                    return Failure('property', f'step {ed["idx"]} {st}: edited attribute not kept on the master: '
                                   f'{pj.get(master_name(st[2]))!r}', real=pj, where='kept'), tags
            elif st[0] == 'mvalue':
                pend_val[st[1]] = st[2]
                pj = obs['master'].get(st[1])
                if pj is None or 'value' not in pj.get('provisioning', []):
                    return Failure('property', f'step {ed["idx"]} {st}: value written while the slave is offline is not '
                                   f'reported as pending: provisioning={None if pj is None else pj.get("provisioning")}',
                                   real=pj, where='reported-pending'), tags
            elif st[0] == 'mdev':
                pend_dev[st[1]] = st[2]
                d = obs['device']
                if d is None or st[1] not in d['provisioning'] or d['attrs'].get(st[1]) != st[2]:
                    return Failure('property', f'step {ed["idx"]} {st}: device attribute edited while offline is not '
                                   f'reported as pending / not kept: {d}', real=d, where='reported-pending'), tags
            elif st[0] == 'mwebhooks':
                pend_wh[st[1]] = st[2]
                if obs['device'] is None or 'webhooks' not in obs['device']['provisioning']:
                    return Failure('property', f'step {ed["idx"]} {st}: webhooks edit not reported as pending',
                                   where='reported-pending'), tags
            elif st[0] == 'mreverse':
                pend_rv[st[1]] = st[2]
                if obs['device'] is None or 'reverse' not in obs['device']['provisioning']:
                    return Failure('property', f'step {ed["idx"]} {st}: reverse edit not reported as pending',
                                   where='reported-pending'), tags
        # (1b) still pending and kept right before the slave comes back
        ob = w.get('obs_before_up')
        if ob is not None:
            for (pid, n), v in pend_attr.items():
                pj = ob['master'].get(pid)
                if pj is not None and (n not in pj.get('provisioning', []) or pj.get(master_name(n)) != v):
                    return Failure('property', f'outage #{wi}: pending attribute {pid}.{n}={v!r} not kept until the '
                                   f'reconnect: provisioning={pj.get("provisioning")} value={pj.get(master_name(n))!r}',
                                   where='kept'), tags
            for pid, v in pend_val.items():
                pj = ob['master'].get(pid)
                if pj is not None and 'value' not in pj.get('provisioning', []):
                    return Failure('property', f'outage #{wi}: pending value of {pid} no longer reported as pending',
                                   where='kept'), tags
                pv = ob['persisted_value'].get(pid, 'n/a')
                if pj is not None and pv != 'n/a' and pv != v:
                    return Failure('property', f'outage #{wi}: pending value of {pid} not kept: {pv!r} instead of {v!r}',
                                   where='kept'), tags
        # (2) sent exactly once, with the user's value, before the refresh
        log = real.log[w['log_up']:]
        first_ports = next((i for i, e in enumerate(log) if e['method'] == 'GET' and e['path'].rstrip('/') == '/ports'),
                           None)
        if first_ports is None:
            tags.add('no-refresh-seen')
            continue
        push_mode = case['mode'] == 'push'
        t_refresh = log[first_ports]['t']
        if push_mode and any(x['t_down'] > w['t_up'] and x['t_down'] <= t_refresh for x in real.windows):
            # a webhook-driven slave that did not show up while it was reachable: the master had no occasion to push
            tags.add('no-refresh-seen')
            continue
        before = log[:first_ports]
        if case['mode'] == 'listen':
            fd = next((i for i, e in enumerate(before) if e['method'] == 'GET' and e['path'].rstrip('/') == '/device'),
                      len(before))
            pushes_after_fetch = [e for e in before[fd:] if e['method'] != 'GET']
            if pushes_after_fetch:
                return Failure('property', f'outage #{wi}: pending data pushed after the mirror refresh started: '
                               f'{pushes_after_fetch[:2]}', where='before-refresh'), tags
        # (a webhook-driven slave is pushed to when it shows up, not when it becomes reachable: checks taken before that
        # do not bound the reconnect)
        nxt = min([c['t'] for c in real.checks if c['t'] > (t_refresh if push_mode else w['t_up'])] +
                  [x['t_down'] for x in real.windows if x['t_down'] > w['t_up']], default=None)
        horizon = [e for e in log[:first_ports + 40] if nxt is None or e['t'] < nxt]
        alive = set(w['ports_at_up']) - removed_in_window.get(wi, set())
        for (pid, n), v in pend_attr.items():
            if pid not in alive:
                tags.add('edit-of-removed-port')
                continue
            hits = [e for e in horizon if e['method'] == 'PATCH' and e['path'].rstrip('/') == f'/ports/{pid}'
                    and isinstance(e['body'], dict) and n in e['body']]
            if len(hits) != 1 or hits[0]['body'][n] != v or hits[0] not in before:
                return Failure('property', f'outage #{wi}: pending attribute {pid}.{n}={v!r} must be sent exactly once '
                               f'with that value before the refresh; the slave received {[(h["t"], h["body"]) for h in hits]}',
                               real=[(h['t'], h['body']) for h in hits], where='pushed-once'), tags
            tags.add('attr-pushed')
        for pid, v in pend_val.items():
            if pid not in alive:
                tags.add('edit-of-removed-port')
                continue
            hits = [e for e in horizon if e['method'] == 'PATCH' and e['path'].rstrip('/') == f'/ports/{pid}/value']
            if len(hits) != 1 or hits[0]['body'] != v or type(hits[0]['body']) is not type(v) or hits[0] not in before:
                return Failure('property', f'outage #{wi}: pending value {v!r} of {pid} must be sent exactly once with '
                               f'that value before the refresh; the slave received '
                               f'{[(h["t"], h["body"]) for h in hits]}', real=[(h['t'], h['body']) for h in hits],
                               where='value-pushed-once'), tags
            tags.add('value-pushed')
        if pend_dev:
            hits = [e for e in horizon if e['method'] == 'PATCH' and e['path'].rstrip('/') == '/device']
            for n, v in pend_dev.items():
                hh = [h for h in hits if isinstance(h['body'], dict) and n in h['body']]
                if len(hh) != 1 or hh[0]['body'][n] != v or hh[0] not in before:
                    return Failure('property', f'outage #{wi}: pending device attribute {n}={v!r} must be sent exactly '
                                   f'once before the refresh; the slave received {[(h["t"], h["body"]) for h in hh]}',
                                   where='device-pushed-once'), tags
            tags.add('device-pushed')
        for name, pend in (('webhooks', pend_wh), ('reverse', pend_rv)):
            if pend:
                hh = [e for e in horizon if e['method'] in ('PUT', 'PATCH') and e['path'].rstrip('/') == f'/{name}']
                if len(hh) != 1 or any(hh[0]['body'].get(k) != v for k, v in pend.items()) or hh[0] not in before:
                    return Failure('property', f'outage #{wi}: pending {name} parameters {pend} must be sent exactly '
                                   f'once before the refresh; received {[(h["t"], h["body"]) for h in hh]}',
                                   where='params-pushed-once'), tags
                tags.add(name + '-pushed')
        # (3) afterwards nothing is pending: first check after this outage
        after = next((c for c in real.checks if c['t'] > (t_refresh if push_mode else w['t_up']) and c['device'] and
                      (c['device']['online'] or push_mode)), None)
        if after is not None:
            later_edit = any(ed['t'] > w['t_up'] and ed['t'] < after['t'] and not ed['sent'] for ed in real.edits)
            if not later_edit:
                left = {rid: pj['provisioning'] for rid, pj in after['master'].items() if pj.get('provisioning')}
                if left or after['device']['provisioning']:
                    return Failure('property', f'outage #{wi}: still reported as pending after the reconnect: ports '
                                   f'{left} device {after["device"]["provisioning"]}', where='nothing-pending'), tags
                tags.add('nothing-pending-checked')
    return None, tags


def oracle_c12(case, real: Real):
    """C12: at every check taken while the master is online, reachable and nothing is pending, the master exposes
    exactly one port per port of the slave, with the slave's value and attributes; in listen mode without outages,
    master-side writes or port re-creation, the value series the master reported equals the slave's."""
    tags = set()
    for ci, c in enumerate(real.checks):
        d = c['device']
        if d is None or not c['reachable'] or (case['mode'] != 'push' and not d['online']):
            tags.add('check-skipped-offline')
            continue
        if case['mode'] == 'push' and (d['provisioning'] or any(pj.get('provisioning') for pj in c['master'].values())):
            continue
        tags.add('mirror-checked')
        if set(c['master']) != set(c['slave']):
            return Failure('property', f'check #{ci}: master exposes ports {sorted(c["master"])} of the slave, the slave '
                           f'has {sorted(c["slave"])}', where='port-set'), tags
        for rid, sj in c['slave'].items():
            mj = c['master'][rid]
            if mj['id'] != f'{NAME}.{rid}':
                return Failure('property', f'check #{ci}: wrong id {mj["id"]}', where='id'), tags
            for n, v in sj.items():
                if n in MASTER_OWNED or v is None:
                    continue
                mv = mj.get(master_name(n))
                if mv is None and chain_gap(n, sj):
                    # known finding C12-device-attr-hidden-below-gap: the level below is missing on the slave's port
                    return Failure('property', f'check #{ci}: port {rid} attribute {n}: master does not show '
                                   f'{master_name(n)}, slave has {v!r} (and no {n[7:]})', where='attrs-gap'), tags
                if mv != v:
                    return Failure('property', f'check #{ci}: port {rid} attribute {n}: master shows '
                                   f'{master_name(n)}={mv!r}, slave has {v!r}', where='attrs'), tags
            # … and no others: what the master exposes beyond its own attributes is an attribute the slave's port has NOW
            for mn, mv in mj.items():
                if mn in MASTER_SIDE or mv is None:
                    continue
                if sj.get(slave_name(mn)) is None:
                    return Failure('property', f'check #{ci}: port {rid}: master exposes {mn}={mv!r}, the slave\'s port '
                                   f'has no attribute {slave_name(mn)} (any more)', where='attrs-extra'), tags
            if any(_SHOWN_RE.match(n) for n in sj):
                tags.add('hub-slave-checked')
            sv = sj['value']
            if mj.get('value') != sv or (sv is not None and type(mj.get('value')) is not type(sv)):
                return Failure('property', f'check #{ci}: port {rid}: master value {mj.get("value")!r}, slave value '
                               f'{sv!r}', where='value'), tags
    # value series (listen mode, restricted regime)
    ops = [s[0] for s in case['steps']]
    toggles = any(s[0] == 'rattr' and s[2] == 'enabled' for s in flat_steps(case)) or \
        any(s[0] == 'mattr' and s[2] == 'enabled' for s in case['steps']) or \
        any(not p.get('enabled', True) for p in case['ports'])
    if case['mode'] == 'listen' and real.checks and not real.overflowed and not toggles and \
            not any(o in ('down', 'mvalue', 'rremove', 'radd', 'when', 'rfail') for o in ops):
        last_t = real.checks[-1]['t']
        series = {}
        for e in real.trace:
            if isinstance(e[0], float) and e[1] == 'value-change' and e[2]['id'].startswith(NAME + '.') \
                    and e[0] <= last_t:
                series.setdefault(e[2]['id'][len(NAME) + 1:], []).append(e[2]['value'])
        for rid in real.checks[-1]['slave']:
            want = [v for v in real.value_log.get(rid, [])]
            got = series.get(rid, [])
            # a port that starts disabled reports nothing until enabled: its log starts with None
            if want and want[0] is None:
                want = want[1:]
            if got != want:
                return Failure('property', f'port {rid}: the master reported the value series {got}, the slave reported '
                               f'{want}', real=got, model=want, where='values-in-order'), tags
            if len(want) > 2:
                tags.add('series-checked')
    return None, tags
