"""C18 helper: a persist driver (configured through the public `settings.persist.driver` class path) that delegates every
call to one of the repository's real drivers, chosen per case:

  redis  qtoggleserver.drivers.persist.RedisDriver(samples_support=True) on a private fakeredis server
  mongo  qtoggleserver.drivers.persist.MongoDriver on a private mongomock client
  json   qtoggleserver.drivers.persist.JSONDriver(file_path=None) (in-memory) with samples switched on the way the
         repository's own test MockPersistDriver does

The persistence API caches one driver per thread for the life of the process, hence the switch.

The switch can also hold back ONE call of the persistence layer the way a networked driver does (`arm`): the next
`get_samples_by_timestamp` / `remove_samples` call is suspended either before it executes on the store (request on the
wire) or after it has executed (reply on the wire) until `release()`; meanwhile other operations run to completion.
"""
import asyncio

from qtoggleserver.persist import BaseDriver

BACKENDS = ('redis', 'mongo', 'json')


class Gate:
    """Suspension of one persistence call."""

    def __init__(self, kind, mode):
        self.kind = kind            # 'byts' | 'remove'
        self.mode = mode            # 'b' = hold before executing, 'a' = hold the reply
        self.reached = False
        self.event = asyncio.Event()


class SwitchDriver(BaseDriver):
    current = None          # the real driver all calls go to
    instance = None
    gate = None             # armed Gate, taken by the first matching call

    @classmethod
    def arm(cls, kind, mode):
        cls.gate = Gate(kind, mode)
        return cls.gate

    @classmethod
    def disarm(cls):
        cls.gate = None

    @classmethod
    async def _gated(cls, kind, call):
        g = cls.gate
        if g is None or g.kind != kind:
            return await call()
        cls.gate = None             # later calls are not delayed
        if g.mode == 'b':
            g.reached = True        # suspended with the request not yet executed on the store
            await g.event.wait()
            return await call()
        res = await call()
        g.reached = True            # suspended with the reply computed
        await g.event.wait()
        return res

    def __init__(self, **kwargs):
        SwitchDriver.instance = self

    async def init(self):
        pass

    async def cleanup(self):
        pass

    async def query(self, collection, fields, filt, sort, limit):
        return await SwitchDriver.current.query(collection, fields, filt, sort, limit)

    async def insert(self, collection, record):
        return await SwitchDriver.current.insert(collection, record)

    async def update(self, collection, record_part, filt):
        return await SwitchDriver.current.update(collection, record_part, filt)

    async def replace(self, collection, id_, record):
        return await SwitchDriver.current.replace(collection, id_, record)

    async def remove(self, collection, filt):
        return await SwitchDriver.current.remove(collection, filt)

    async def get_samples_slice(self, collection, obj_id, from_timestamp, to_timestamp, limit, sort_desc):
        return await SwitchDriver.current.get_samples_slice(collection, obj_id, from_timestamp, to_timestamp, limit,
                                                             sort_desc)

    async def get_samples_by_timestamp(self, collection, obj_id, timestamps):
        async def call():
            return list(await SwitchDriver.current.get_samples_by_timestamp(collection, obj_id, timestamps))
        return await SwitchDriver._gated('byts', call)

    async def save_sample(self, collection, obj_id, timestamp, value):
        return await SwitchDriver.current.save_sample(collection, obj_id, timestamp, value)

    async def remove_samples(self, collection, obj_ids, from_timestamp, to_timestamp):
        async def call():
            return await SwitchDriver.current.remove_samples(collection, obj_ids, from_timestamp, to_timestamp)
        return await SwitchDriver._gated('remove', call)

    def is_samples_supported(self):
        return True

    async def ensure_index(self, collection, index):
        return await SwitchDriver.current.ensure_index(collection, index)


_patched = {}


def _patch_clients():
    if _patched:
        return
    import fakeredis
    import mongomock
    import pymongo
    import redis as python_redis

    def fake_redis(**kw):
        return fakeredis.FakeStrictRedis(server=fakeredis.FakeServer(), **kw)

    python_redis.StrictRedis = fake_redis
    pymongo.MongoClient = mongomock.MongoClient
    _patched['done'] = True


async def fresh_backend(name):
    """A new, empty store behind a real driver of the repository; becomes the target of the switch."""
    _patch_clients()
    if name == 'redis':
        from qtoggleserver.drivers.persist import redis as redis_driver
        drv = redis_driver.RedisDriver(samples_support=True)
    elif name == 'mongo':
        from qtoggleserver.drivers.persist import mongo as mongo_driver
        drv = mongo_driver.MongoDriver()
    elif name == 'json':
        from qtoggleserver.drivers.persist.json import JSONDriver

        class SamplesJSONDriver(JSONDriver):
            def is_samples_supported(self):
                return True

        drv = SamplesJSONDriver(file_path=None)
    else:
        raise ValueError(name)
    await drv.init()
    old = SwitchDriver.current
    SwitchDriver.current = drv
    if old is not None:
        try:
            await old.cleanup()
        except Exception:
            pass
    return drv
