"""C02 — property oracle: the language reference, restated declaratively and evaluated on REAL observations only.

`check_node(name, arg_outcomes, outcome, now_ms)` looks at one function application of the real tree: the real
outcomes of its arguments (each argument evaluated on its own by the real code) and the real outcome of the call.
It returns None when the call agrees with the reference, or a text saying how it does not.  It never uses the
Lean model.  Exact arithmetic is done with `fractions.Fraction`; where the reference value is a real number and the
code computes in binary64, a relative tolerance is used (the bit-exact comparison is the correspondence's job).

Outcome = ('val', v) | ('port', id) | ('unavailable', cls) | ('error', cls) | ('crash', cls) | ('weird', repr)
SpecChoices (the reference is silent, the code's choice is recorded): LUT ties go to the upper point; MOD takes the
divisor's sign; SGN/BIT*/SHL/SHR truncate their arguments toward zero first; ROUND is half-even on the exact binary
value; LUTLI on a vertical segment returns the first point's y; a LUT's dangling last argument is ignored.
"""
import math
from fractions import Fraction

LAZY = ('IF', 'AND', 'OR', 'AVAILABLE', 'DEFAULT')
TOL = Fraction(1, 10**9)


def is_num(v):
    return isinstance(v, (bool, int, float))


def finite(v):
    return not isinstance(v, float) or math.isfinite(v)


def isnan(v):
    return isinstance(v, float) and v != v


def fr(v):
    return Fraction(v)          # exact for bool / int / finite float


def failed(o):
    return o[0] in ('unavailable', 'error', 'crash')


def truth(v):
    return bool(v)


def same_num(a, b):
    if isnan(a) or isnan(b):
        return isnan(a) and isnan(b)
    return a == b


def close(real, want: Fraction, scale: Fraction):
    """real (a finite number) is within tolerance of the exact reference value."""
    if not is_num(real) or not finite(real):
        return False
    return abs(fr(real) - want) <= TOL * max(scale, abs(want)) + Fraction(1, 10**300)


def fmt(o):
    return f'{o[0]}:{o[1]!r}'


def check_lazy(name, args, out):
    """args: list of outcomes of the arguments evaluated on their own (all of them, though the call is lazy)."""
    def same(o):
        if o[0] != out[0]:
            return False
        if o[0] == 'val':
            return same_num(o[1], out[1])
        return True

    if name == 'IF':
        c = args[0]
        want = c if c[0] != 'val' else (args[1] if truth(c[1]) else args[2])
        if not same(want):
            return f'IF must yield {"its condition failure" if c[0] != "val" else "the selected branch"} {fmt(want)}, got {fmt(out)}'
        return None
    if name in ('AND', 'OR'):
        for a in args:
            if a[0] != 'val':
                want = a
                break
            if truth(a[1]) == (name == 'OR'):
                want = ('val', 1 if name == 'OR' else 0)
                break
        else:
            want = ('val', 0 if name == 'OR' else 1)
        if not same(want):
            return f'{name} evaluates left to right and stops at the deciding argument: expected {fmt(want)}, got {fmt(out)}'
        return None
    if name == 'AVAILABLE':
        a = args[0]
        if a[0] == 'crash':
            want = a
        else:
            want = ('val', a[0] in ('val', 'port'))
        if not same(want):
            return f'AVAILABLE of {fmt(a)} must be {fmt(want)}, got {fmt(out)}'
        return None
    if name == 'DEFAULT':
        a = args[0]
        want = args[1] if a[0] in ('unavailable', 'error') else a
        if not same(want):
            return f'DEFAULT({fmt(a)}, {fmt(args[1])}) must be {fmt(want)}, got {fmt(out)}'
        return None
    return None


def _sum_check(vals, out, divide_by=1):
    if not all(finite(v) for v in vals):
        return None
    s = sum(fr(v) for v in vals) / divide_by
    scale = sum(abs(fr(v)) for v in vals) / divide_by
    if scale > Fraction(10)**300:
        return None                                  # partial sums may overflow in binary64
    if out[0] == 'crash':
        return f'unexpected {fmt(out)}'
    if abs(s) > Fraction(10)**308 and isinstance(out[1], float) and not math.isfinite(out[1]):
        return None
    if not close(out[1], s, scale):
        return f'expected ≈ {float(s) if abs(s) < 10**300 else s}, got {out[1]!r}'
    return None


def _points(vals):
    n = (len(vals) - 1) // 2
    pts = [(vals[2 * i + 1], vals[2 * i + 2]) for i in range(n)]
    # stable sort by exact x
    return sorted(pts, key=lambda p: fr(p[0]))


def check_strict(name, vals, out, now_ms):
    """All arguments are values `vals`; `out` is the call's real outcome."""
    if out[0] in ('unavailable',):
        return f'{name} of available arguments must not be unavailable'
    if out[0] == 'weird':
        return f'{name} yielded {out[1]}, which is not a value of the language (bool / int / float)'
    if out[0] == 'port':
        return f'{name} yielded a port object'
    anynan = any(isnan(v) for v in vals)
    allfin = all(finite(v) for v in vals)
    moderate = allfin and all(abs(fr(v)) < 10**100 for v in vals)

    # ---- domains: inputs outside a function's domain never yield a value
    if name in ('DIV', 'MOD') and not truth(vals[1]):
        return None if out[0] == 'error' else f'{name} by zero must be an evaluation error, got {fmt(out)}'
    if name == 'POW' and allfin:
        a, b = vals
        if fr(a) < 0 and fr(b).denominator != 1:
            return None if out[0] != 'val' else f'POW({a!r}, {b!r}) is outside the real domain but yielded {out[1]!r}'
        if fr(a) == 0 and fr(b) < 0:
            return None if out[0] != 'val' else f'POW(0, negative) yielded {out[1]!r}'
    if name in ('FLOOR', 'CEIL', 'BITNOT', 'SGN') and not finite(vals[0]):
        return None if out[0] != 'val' else f'{name} of a non-finite number yielded {out[1]!r}'
    if name in ('BITAND', 'BITOR', 'BITXOR', 'SHL', 'SHR') and not allfin:
        return None if out[0] != 'val' else f'{name} of a non-finite number yielded {out[1]!r}'
    if name in ('SHL', 'SHR') and allfin and math.trunc(fr(vals[1])) < 0:
        return None if out[0] != 'val' else f'{name} by a negative count yielded {out[1]!r}'
    if out[0] == 'error':
        return f'{name} of in-domain values raised an evaluation error ({out[1]})'
    if out[0] == 'crash':
        if moderate and name not in ('POW', 'SHL', 'ROUND', 'LUTLI'):
            return f'{name} of moderate finite values raised {out[1]}'
        return None
    r = out[1]
    if not is_num(r):
        return f'{name} yielded a non-number {r!r}'
    if anynan:
        return None

    # ---- values
    if name == 'ADD':
        return _sum_check(vals, out)
    if name == 'AVG':
        return _sum_check(vals, out, len(vals))
    if name == 'SUB' and allfin:
        w = fr(vals[0]) - fr(vals[1])
        if abs(w) > Fraction(10)**307:
            return None
        return None if close(r, w, abs(fr(vals[0])) + abs(fr(vals[1]))) else f'expected ≈ {w}, got {r!r}'
    if name == 'MUL' and allfin:
        w = Fraction(1)
        for v in vals:
            w *= fr(v)
            if abs(w) > Fraction(10)**300 or (w != 0 and abs(w) < Fraction(1, 10**300)):
                return None                          # a partial product leaves the binary64 range
        return None if close(r, w, abs(w)) else f'expected ≈ {w}, got {r!r}'
    if name == 'DIV' and allfin:
        w = fr(vals[0]) / fr(vals[1])
        if abs(w) > Fraction(10)**307 or (w != 0 and abs(w) < Fraction(1, 10**300)):
            return None
        return None if close(r, w, abs(w)) else f'expected ≈ {w}, got {r!r}'
    if name == 'MOD' and allfin:
        if any(isinstance(v, float) for v in vals):
            try:
                a, b = fr(float(vals[0])), fr(float(vals[1]))   # mixed arithmetic is done in binary64
            except OverflowError:
                return None
            if b == 0:
                return None
        else:
            a, b = fr(vals[0]), fr(vals[1])
        w = a - b * math.floor(a / b)                      # floor-mod: sign of the divisor
        if not finite(r):
            return f'expected ≈ {w}, got {r!r}'
        rr = fr(r)
        # in binary64 the result may be rounded to the divisor itself (tiny negative % positive)
        ok = abs(rr - w) <= TOL * max(abs(b), abs(w)) or (rr == b and abs(w - b) <= TOL * abs(b))
        return None if ok else f'expected {w} (floor-mod, divisor\'s sign), got {r!r}'
    if name == 'POW' and allfin:
        a, b = fr(vals[0]), fr(vals[1])
        if b.denominator == 1 and abs(b) <= 64 and a != 0:
            w = a ** int(b)
            if abs(w) > Fraction(10)**300 or abs(w) < Fraction(1, 10**300):
                return None
            return None if close(r, w, abs(w)) else f'expected ≈ {w}, got {r!r}'
        if a > 0 and abs(b) < 1000 and Fraction(1, 10**6) < a < 10**6:
            try:
                w = math.exp(float(b) * math.log(float(a)))
            except OverflowError:
                return None
            if not (1e-300 < w < 1e300):
                return None
            return None if finite(r) and abs(float(r) - w) <= 1e-6 * w else f'expected ≈ {w}, got {r!r}'
        return None
    if name in ('EQ', 'GT', 'GTE', 'LT', 'LTE'):
        a, b = vals
        w = {'EQ': a == b, 'GT': a > b, 'GTE': a >= b, 'LT': a < b, 'LTE': a <= b}[name]      # exact in Python
        return None if r == int(w) else f'expected {int(w)}, got {r!r}'
    if name == 'NOT':
        return None if r == int(not truth(vals[0])) else f'expected {int(not truth(vals[0]))}, got {r!r}'
    if name == 'XOR':
        w = int(truth(vals[0]) != truth(vals[1]))
        return None if r == w else f'expected {w}, got {r!r}'
    if name in ('BITAND', 'BITOR', 'BITXOR', 'BITNOT', 'SHL', 'SHR'):
        ints = [math.trunc(fr(v)) for v in vals]
        w = {'BITAND': lambda: ints[0] & ints[1], 'BITOR': lambda: ints[0] | ints[1], 'BITXOR': lambda: ints[0] ^ ints[1],
             'BITNOT': lambda: -ints[0] - 1, 'SHL': lambda: ints[0] * 2 ** ints[1],
             'SHR': lambda: math.floor(Fraction(ints[0], 2 ** ints[1]))}[name]()
        return None if r == w else f'expected {w}, got {r!r}'
    if name in ('FLOOR', 'CEIL'):
        w = math.floor(fr(vals[0])) if name == 'FLOOR' else math.ceil(fr(vals[0]))
        return None if r == w else f'expected {w}, got {r!r}'
    if name == 'ROUND':
        v = vals[0]
        if not finite(v):
            return None
        if len(vals) == 2:
            if not finite(vals[1]):
                return None
            n = math.trunc(fr(vals[1]))
        else:
            n = 0
        if abs(n) > 330:
            return None
        w = round(fr(v) * Fraction(10)**n) / Fraction(10)**n      # Fraction rounding is half-even on the exact value
        if abs(w) > Fraction(10)**308:
            return None
        if isinstance(v, float):
            return None if finite(r) and (fr(r) == w or float(w) == r) else f'expected {float(w)!r} (half-even at {n} digits), got {r!r}'
        return None if r == w else f'expected {w}, got {r!r}'
    if name == 'ABS':
        w = abs(fr(vals[0])) if finite(vals[0]) else math.inf
        return None if (r == w) else f'expected {w}, got {r!r}'
    if name == 'SGN':
        t = math.trunc(fr(vals[0]))
        w = (t > 0) - (t < 0)
        return None if r == w else f'expected {w} (sign of the truncated argument), got {r!r}'
    if name in ('MIN', 'MAX'):
        if not any(same_num(r, v) for v in vals):
            return f'{name} must return one of its arguments, got {r!r}'
        bad = [v for v in vals if (v < r if name == 'MIN' else v > r)]
        return None if not bad else f'{name} returned {r!r} but {bad[0]!r} is {"smaller" if name == "MIN" else "larger"}'
    if name == 'ONOFFAUTO':
        v, auto = vals
        w = True if v > 0 else (False if v < 0 else auto)
        return None if same_num(r, w) else f'expected {w!r}, got {r!r}'
    if name in ('LUT', 'LUTLI') and allfin:
        if any(abs(fr(v)) > 10**150 or (v != 0 and abs(fr(v)) < Fraction(1, 10**150)) for v in vals):
            return None                                  # differences / products may leave the binary64 range
        x = fr(vals[0])
        pts = _points(vals)
        if x < fr(pts[0][0]):
            w = [pts[0][1]]
        else:
            w = None
            for i in range(len(pts) - 1):
                p1, p2 = pts[i], pts[i + 1]
                if x > fr(p2[0]):
                    continue
                if name == 'LUT':
                    d1, d2 = x - fr(p1[0]), fr(p2[0]) - x
                    if abs(d1 - d2) <= TOL * (abs(d1) + abs(d2)) and d1 != d2:
                        w = [p1[1], p2[1]]                      # a near tie: binary64 rounding may decide
                    else:
                        w = [p1[1]] if d1 < d2 else [p2[1]]     # exact tie → upper point
                else:
                    if fr(p1[0]) == fr(p2[0]):
                        w = [p1[1]]
                    else:
                        y = fr(p1[1]) + (fr(p2[1]) - fr(p1[1])) * (x - fr(p1[0])) / (fr(p2[0]) - fr(p1[0]))
                        lo, hi = sorted([fr(p1[1]), fr(p2[1])])
                        scale = abs(fr(p1[1])) + abs(fr(p2[1]))
                        if scale > Fraction(10)**300:
                            return None
                        if not close(r, y, scale):
                            return f'LUTLI expected ≈ {float(y)!r}, got {r!r}'
                        if not (lo - TOL * scale <= fr(r) <= hi + TOL * scale):
                            return f'LUTLI result {r!r} is not between the end-points {p1[1]!r} and {p2[1]!r}'
                        return None
                break
            if w is None:
                w = [pts[-1][1]]
        return None if any(same_num(r, y) for y in w) else f'{name} expected {w!r}, got {r!r}'
    if name == 'TIME':
        w = math.trunc(Fraction(now_ms, 1000))
        if abs(now_ms) > 2**53:
            return None if abs(r - w) <= abs(now_ms) // 2**52 + 1 else f'expected ≈ {w}, got {r!r}'
        return None if r == w else f'expected {w}, got {r!r}'
    if name == 'TIMEMS':
        return None if r == now_ms else f'expected {now_ms}, got {r!r}'
    return None


def check_node(name, args, out, now_ms, first_failure=True):
    """args: outcomes of the arguments (each evaluated on its own by the real code); out: outcome of the call."""
    if name in LAZY:
        return check_lazy(name, args, out)
    bad = [a for a in args if a[0] != 'val']
    if bad:
        if not first_failure:
            # the code as found: some failing argument's failure must come out
            if out[0] not in [a[0] for a in bad]:
                return f'{name} with a failing argument yielded {fmt(out)}'
            return None
        w = bad[0]
        if out[0] != w[0]:
            return (f'{name}: the first failing argument (in argument order) is {fmt(w)}, '
                    f'but the call yielded {fmt(out)}')
        return None
    return check_strict(name, [a[1] for a in args], out, now_ms)
