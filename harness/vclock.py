"""Virtual wall clock: `time.time()` (and optionally monotonic) return a value the harness controls."""
import time as _time

_real_time = _time.time
_state = {'now': None}


def install():
    if getattr(_time.time, '_verif', False):
        return

    def fake_time():
        v = _state['now']
        return _real_time() if v is None else v

    fake_time._verif = True
    _time.time = fake_time


def set(now):
    _state['now'] = now


def get():
    return _state['now']


def real():
    return _real_time()
