"""Instrumented, statically configured (non-virtual) port driver used by the C07/C20 harnesses.

A register-like port: `write_value` stores into the register (and appends to the module-level WRITES log), `read_value`
returns the register. Type and writability are constructor arguments, so one class stands for several "hardware" ports.
It declares two additional *modifiable* attributes (`gain`: integer number, `note`: string) and a non-modifiable one
(`serial`), which lets the restart/backup checks cover driver-defined attributes too.
"""
from qtoggleserver.core import ports as core_ports

WRITES = []          # [port id, value] in call order (per process)


class LoggingPort(core_ports.Port):
    ADDITIONAL_ATTRDEFS = {
        'gain': {
            'display_name': 'Gain',
            'description': 'verification harness attribute',
            'type': 'number',
            'integer': True,
            'modifiable': True,
        },
        'note': {
            'display_name': 'Note',
            'description': 'verification harness attribute',
            'type': 'string',
            'modifiable': True,
        },
        'serial': {
            'display_name': 'Serial',
            'description': 'verification harness attribute',
            'type': 'string',
            'modifiable': False,
        },
    }

    def __init__(self, port_id, type_='number', writable=True, initial=None):
        super().__init__(port_id)
        self._type = type_
        self._writable = writable
        self._reg = initial
        self._gain = 1
        self._note = ''
        self._serial = 'SN-' + port_id

    async def read_value(self):
        return self._reg

    async def write_value(self, value):
        WRITES.append([self.get_id(), value])
        self._reg = value
