"""C18 helper: an asyncio loop whose clock only moves when the harness says so.

`core.history.init()` starts `sampling_task` (period 1 s) and `janitor_task` (period `history_janitor_interval`) as
endless loops around `asyncio.sleep`.  On this loop `loop.time()` is a counter: `step(1.0)` makes every timer that is due
fire exactly once at the next pass of the loop, so one `tick` of a case = one iteration of each task — with `time.time()`
still supplied by harness.vclock.  Nothing else in a case waits on a timer, so the loop never blocks in `select`."""
import asyncio


class StepLoop(asyncio.SelectorEventLoop):
    def __init__(self):
        super().__init__()
        self._now = 0.0

    def time(self):
        return self._now

    def step(self, dt):
        self._now = round(self._now + dt, 6)


def new_loop():
    loop = StepLoop()
    asyncio.set_event_loop(loop)
    return loop
