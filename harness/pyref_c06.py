"""A plain in-memory record store in Python: the reference that property C06 compares every persistence
driver with. Collections are insertion-ordered lists of [id, fields]; filters use Python's own `==`, `<`, …;
a query is filter -> stable sort by the lexicographic key order -> (limit applied by the caller) -> projection.
Independent of the drivers' code and of the Lean model (which is compared with it too).
"""
import copy
import datetime
import functools
import operator
import struct

OPS = {'gt': operator.gt, 'ge': operator.ge, 'lt': operator.lt, 'le': operator.le}


class RefError(Exception):
    def __init__(self, kind):
        super().__init__(kind)
        self.kind = kind


def canon(v):
    """type-strict canonical form: what is read back must be equal to, and of the same type as, what was written"""
    if v is None:
        return ('n',)
    if isinstance(v, bool):
        return ('b', v)
    if isinstance(v, int):
        return ('i', v)
    if isinstance(v, float):
        return ('f', struct.pack('>d', v).hex())
    if isinstance(v, str):
        return ('s', v)
    if isinstance(v, datetime.datetime):
        return ('t', v.isoformat(), str(v.tzinfo))
    if isinstance(v, datetime.date):
        return ('d', v.isoformat())
    if isinstance(v, (list, tuple)):
        return ('a', tuple(canon(x) for x in v))
    if isinstance(v, dict):
        return ('o', tuple(sorted((canon(k), canon(x)) for k, x in v.items())))
    return ('?', repr(v))


def view_of(rec):
    d = dict(rec[1])
    d['id'] = rec[0]
    return d


def matches(view, filt):
    for k, cond in filt.items():
        if k not in view:
            return False
        v = view[k]
        if isinstance(cond, dict):
            for op, w in cond.items():
                if op == 'in':
                    if not isinstance(w, list):
                        raise RefError('type')
                    if not any(x == v for x in w):
                        return False
                elif op in OPS:
                    try:
                        if not OPS[op](v, w):
                            return False
                    except TypeError:
                        raise RefError('type')
                else:
                    raise RefError('type')
        elif not (v == cond):
            return False
    return True


def validate(filt):
    """the contract's filter language: exact values, or operator dicts over gt / ge / lt / le / in (list of values)"""
    for cond in filt.values():
        if isinstance(cond, dict):
            for op, w in cond.items():
                if op == 'in':
                    if not isinstance(w, list):
                        raise RefError('type')
                elif op not in OPS:
                    raise RefError('type')


class PyRef:
    def __init__(self):
        self.colls = {}
        self.last_changed = 0

    def records(self, coll):
        return self.colls.get(coll, [])

    def ids(self, coll):
        return [r[0] for r in self.records(coll)]

    # ---- operations
    def apply(self, op, name=None):
        kind = op[0]
        if kind == 'insert':
            return self.insert(op[1], op[2], name)
        if kind == 'update':
            return self.update(op[1], op[2], op[3])
        if kind == 'replace':
            return self.replace(op[1], op[2], op[3])
        if kind == 'remove':
            return self.remove(op[1], op[2])
        if kind == 'query':
            return self.query(op[1], op[2], op[3], op[4])
        if kind == 'reload':
            return ('u',)
        raise ValueError(op)

    def insert(self, coll, rec, name):
        rec = copy.deepcopy(rec)
        id_ = rec.pop('id', None)
        if id_ is None:
            if name in self.ids(coll):
                raise RefError('not-fresh')
            id_ = name
        elif not isinstance(id_, str):
            raise RefError('bad-id')
        elif id_ in self.ids(coll):
            raise RefError('dup')
        self.colls.setdefault(coll, []).append([id_, rec])
        return ('id', id_)

    def update(self, coll, part, filt):
        if 'id' in part:
            raise RefError('id-in-part')
        validate(filt)
        flags = [matches(view_of(r), filt) for r in self.records(coll)]
        changed = 0
        for r, f in zip(self.records(coll), flags):
            if f:
                before = dict(r[1])
                r[1].update(copy.deepcopy(part))
                if any(k not in before or not (before[k] == v) for k, v in part.items()):
                    changed += 1
        self.last_changed = changed
        return ('n', sum(flags))

    def replace(self, coll, id_, rec):
        for r in self.records(coll):
            if r[0] == id_:
                rec = copy.deepcopy(rec)
                rec.pop('id', None)
                r[1] = rec
                return ('b', True)
        return ('b', False)

    def api_replace(self, coll, id_, rec):
        """persist.replace: replace, or insert under that id; True iff an existing record was replaced"""
        if self.replace(coll, id_, rec)[1]:
            return ('b', True)
        self.insert(coll, dict(rec, id=id_), None)
        return ('b', False)

    def remove(self, coll, filt):
        validate(filt)
        flags = [matches(view_of(r), filt) for r in self.records(coll)]
        self.colls[coll] = [r for r, f in zip(self.records(coll), flags) if not f]
        return ('n', sum(flags))

    def query(self, coll, fields, filt, sort):
        validate(filt)
        views = [view_of(r) for r in self.records(coll)]
        flags = [matches(v, filt) for v in views]
        sel = [v for v, f in zip(views, flags) if f]
        keys = []
        for v in sel:
            ks = []
            for f, _ in sort:
                if f == 'id':
                    try:
                        ks.append(_py_int(v['id']))
                    except ValueError:
                        raise RefError('type')
                elif f in v:
                    ks.append(v[f])
                else:
                    raise RefError('type')
            keys.append(ks)
        # every pair of keys of a sort field must be orderable
        for j in range(len(sort)):
            col = [k[j] for k in keys]
            for a in col:
                for b in col:
                    try:
                        a < b
                    except TypeError:
                        raise RefError('type')

        def cmp(x, y):
            for (f, desc), a, b in zip(sort, x[0], y[0]):
                if a < b:
                    return 1 if desc else -1
                if b < a:
                    return -1 if desc else 1
            return 0
        order = sorted(zip(keys, sel), key=functools.cmp_to_key(cmp))
        out = []
        g = 0
        prev = None
        for item in order:
            if prev is not None and cmp(prev, item) != 0:
                g += 1
            prev = item
            rec = item[1]
            if fields is not None:
                rec = {k: v for k, v in rec.items() if k in fields}
            out.append((g, copy.deepcopy(rec)))
        return ('g', out)


def _py_int(s):
    """int(s) restricted to an optional sign and ASCII digits (the generated / generator-made identifiers)"""
    body = s[1:] if s[:1] in '+-' else s
    if not body or not all('0' <= c <= '9' for c in body):
        raise ValueError(s)
    return int(s)
