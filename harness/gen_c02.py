"""C02 — case generator and tree utilities (expressions as JSON-able trees).

Tree:  ['lit', text] | ['pv', id] | ['sv'] | ['pr', id] | ['sr'] | ['call', NAME, [args…]]
Value tokens (also used on the driver wire):  'b0' 'b1' 'i<decimal>' 'f<16 hex digits>'
"""
import math
import struct

REGISTERED = ['a', 'b', 'c', 'd', 'p.1', 'x-y_z']      # ports that exist (enabled or not); ids exercise [a-zA-Z0-9_.-]
MISSING = ['zz', 'm.1']                                # ids that are never registered

VARIADIC = {'ADD': 2, 'MUL': 2, 'MIN': 2, 'MAX': 2, 'AVG': 2, 'AND': 2, 'OR': 2}
FIXED = {'SUB': 2, 'DIV': 2, 'MOD': 2, 'POW': 2, 'EQ': 2, 'GT': 2, 'GTE': 2, 'LT': 2, 'LTE': 2, 'IF': 3, 'NOT': 1,
         'XOR': 2, 'BITAND': 2, 'BITOR': 2, 'BITNOT': 1, 'BITXOR': 2, 'SHL': 2, 'SHR': 2, 'FLOOR': 1, 'CEIL': 1,
         'ABS': 1, 'SGN': 1, 'AVAILABLE': 1, 'DEFAULT': 2, 'ONOFFAUTO': 2, 'TIME': 0, 'TIMEMS': 0}
ALL_FUNCS = sorted(list(VARIADIC) + list(FIXED) + ['ROUND', 'LUT', 'LUTLI'])
STRICT = [f for f in ALL_FUNCS if f not in ('IF', 'AND', 'OR', 'AVAILABLE', 'DEFAULT')]

NUM_LITS = ['0', '1', '2', '3', '10', '-1', '-2', '0.5', '-0.5', '2.5', '-2.5', '1.5', '0.1', '0.2', '0.3', '7', '100',
            '1e3', '-7', '3.75', '0.25', '1e-3', '4', '5', '6', '8', '16', '255', '1000', '-100', '2.675', '1.005']
BOOL_LITS = ['true', 'false', '0', '1']
SMALL_LITS = ['0', '1', '2', '3', '-1', '-2', '4', '8', '0.5', '2', '1', '5', '-3', '16', '1.5', '63', '64']
BOUNDARY_LITS = ['9007199254740992', '9007199254740993', '-9007199254740993', '1e308', '-1e308', '1.7976931348623157e308',
                 '5e-324', '1e-320', '-0', '-0.0', '0.0', '1_000', '+5', '1e22', '1e23', '4503599627370497.5',
                 '9223372036854775807', '9223372036854775808', '-9223372036854775808', '18446744073709551616',
                 '0.49999999999999994', '2.5', '3.5', '-3.5', '1e16', '123456789012345678', '1' + '0' * 400, '1e400', '-1e400']
NONFINITE_LITS = ['inf', '-inf', 'nan', 'Infinity', '-nan']


# ------------------------------------------------------------------------------------------------ values
def f2tok(x: float) -> str:
    if x != x:
        return 'f7ff8000000000000'
    return 'f%016x' % struct.unpack('<Q', struct.pack('<d', x))[0]


def v2tok(v) -> str:
    if v is True:
        return 'b1'
    if v is False:
        return 'b0'
    if isinstance(v, int):
        return 'i%d' % v
    if isinstance(v, float):
        return f2tok(v)
    raise TypeError(repr(v))


def tok2v(t: str):
    if t == 'b1':
        return True
    if t == 'b0':
        return False
    if t[0] == 'i':
        return int(t[1:])
    if t[0] == 'f':
        return struct.unpack('<d', struct.pack('<Q', int(t[1:], 16)))[0]
    raise ValueError(t)


# ------------------------------------------------------------------------------------------------ trees
def show(t) -> str:
    k = t[0]
    if k == 'lit':
        return t[1]
    if k == 'pv':
        return '$' + t[1]
    if k == 'sv':
        return '$'
    if k == 'pr':
        return '@' + t[1]
    if k == 'sr':
        return '@'
    return t[1] + '(' + ', '.join(show(a) for a in t[2]) + ')'


def size(t) -> int:
    return 1 + sum(size(a) for a in t[2]) if t[0] == 'call' else 1


def depth(t) -> int:
    return 1 + max([depth(a) for a in t[2]] or [0]) if t[0] == 'call' else 1


def shape(t) -> str:
    k = t[0]
    if k == 'call':
        return t[1] + '(' + ','.join(shape(a) for a in t[2]) + ')'
    return {'lit': 'L', 'pv': 'P', 'sv': 'S', 'pr': 'R', 'sr': 'R'}[k]


def funcs_in(t, acc=None):
    acc = [] if acc is None else acc
    if t[0] == 'call':
        acc.append(t[1])
        for a in t[2]:
            funcs_in(a, acc)
    return acc


def subtrees(t):
    yield t
    if t[0] == 'call':
        for a in t[2]:
            yield from subtrees(a)


def shrink_trees(t):
    """Smaller trees: every proper subtree; every single-argument simplification (argument → literal / its own
    sub-argument); dropping one argument of a variadic call."""
    if t[0] != 'call':
        if t[0] != 'lit' or t[1] not in ('1', '0'):
            yield ['lit', '1']
            yield ['lit', '0']
        return
    for a in t[2]:
        if a[0] not in ('pr', 'sr'):
            yield a
    name, args = t[1], t[2]
    minargs = VARIADIC.get(name)
    if name in ('LUT', 'LUTLI'):
        minargs = 5
    if minargs is not None and len(args) > minargs:
        for i in range(len(args)):
            yield ['call', name, args[:i] + args[i + 1:]]
    for i, a in enumerate(args):
        if name in COUNTED and i == 1:
            # exponent / shift count / digits must stay small (2 ** huge would exhaust memory on both sides)
            if a[0] != 'lit':
                yield ['call', name, args[:i] + [['lit', '2']] + args[i + 1:]]
                yield ['call', name, args[:i] + [['lit', '1']] + args[i + 1:]]
            continue
        for sa in shrink_trees(a):
            yield ['call', name, args[:i] + [sa] + args[i + 1:]]


COUNTED = ('POW', 'SHL', 'SHR', 'ROUND')


def _small_ok(t, case):
    """Syntactic guarantee that |value of t| is at most ~1100."""
    k = t[0]
    if k == 'lit':
        if t[1] in ('true', 'false', 'unavailable'):
            return True
        try:
            return abs(float(t[1])) <= 1100
        except (ValueError, OverflowError):
            return False
    if k == 'pv':
        tok = case['vals'].get(t[1])
        if tok is None or t[1] not in case['ports']:
            return True
        v = tok2v(tok)
        return v != v or abs(v) <= 1100
    if k == 'call':
        if t[1] in ('EQ', 'GT', 'GTE', 'LT', 'LTE', 'NOT', 'XOR', 'SGN', 'AND', 'OR', 'AVAILABLE'):
            return True
        if t[1] == 'IF' and len(t[2]) == 3:
            return _small_ok(t[2][1], case) and _small_ok(t[2][2], case)
    return False


def safe(t, case, nest=0):
    """The case can be evaluated with moderate resources: counts are small and powers are nested at most twice."""
    if t[0] != 'call':
        return True
    if t[1] in COUNTED and len(t[2]) == 2:
        if not _small_ok(t[2][1], case):
            return False
        if t[1] in ('POW', 'SHL'):
            nest += 1
            if nest > 2:
                return False
            if nest == 2 and t[2][1][0] == 'lit':
                try:
                    if abs(float(t[2][1][1])) > 64:
                        return False
                except (ValueError, OverflowError):
                    return False
            return safe(t[2][0], case, nest) and safe(t[2][1], case, 0)     # the count itself is small, whatever it computes
    return all(safe(a, case, nest) for a in t[2])


# ------------------------------------------------------------------------------------------------ generation
class Gen:
    def __init__(self, rng, tier, ctx, stream):
        self.rng = rng
        self.tier = tier
        self.ctx = ctx            # the case being built (ports / context values already chosen)
        self.stream = stream      # 'plain' | 'boundary' | 'nonfinite'
        self.pfail = ctx.get('pfail', 0.05)
        self.good_ids = [i for i in REGISTERED if ctx['ports'][i]['en'] and i in ctx['vals']]
        self.bad_ids = [i for i in REGISTERED if i not in self.good_ids] + MISSING
        self.small_ports = [i for i in self.good_ids if self._is_small(ctx['vals'][i])]
        self.all_ids = REGISTERED + MISSING

    @staticmethod
    def _is_small(tok):
        v = tok2v(tok)
        if isinstance(v, float):
            return v == v and abs(v) <= 64
        return abs(int(v)) <= 64

    def lit(self, pool=None):
        r = self.rng
        if pool is not None:
            return ['lit', r.choice(pool)]
        x = r.random()
        if self.stream == 'nonfinite' and x < 0.25:
            return ['lit', r.choice(NONFINITE_LITS)]
        if self.stream != 'plain' and x < 0.5:
            return ['lit', r.choice(BOUNDARY_LITS)]
        if x < 0.10:
            return ['lit', r.choice(['true', 'false'])]
        if x < 0.16:
            return ['lit', repr(round(r.uniform(-50, 50), r.choice([1, 2, 3])))]
        return ['lit', r.choice(NUM_LITS)]

    def leaf(self):
        r = self.rng
        if r.random() < self.pfail:
            x = r.random()
            if x < 0.2:
                return ['lit', 'unavailable']
            if x < 0.3:
                return ['sv']
            bad = self.bad_ids or MISSING
            return ['pv', r.choice(bad)]
        x = r.random()
        if x < 0.5 or not self.good_ids:
            return self.lit()
        if x < 0.56:
            return ['sv']
        return ['pv', r.choice(self.good_ids)]

    def small(self, d):
        """An expression whose value is a small number (exponents, shift counts, digits)."""
        r = self.rng
        x = r.random()
        if d <= 0 or x < 0.6:
            if self.small_ports and r.random() < 0.3:
                return ['pv', r.choice(self.small_ports)]
            if r.random() < 0.06:
                return ['lit', r.choice(['100', '400', '-400', '323', '324', '-308', '-309', '1000', '1074', '-1', '-64', '52', '53'])]
            return ['lit', r.choice(SMALL_LITS)]
        if x < 0.75:
            return ['call', r.choice(['EQ', 'GT', 'LTE']), [self.expr(d - 1), self.expr(d - 1)]]
        if x < 0.85:
            return ['call', 'SGN', [self.expr(d - 1)]]
        if x < 0.93:
            return ['call', 'IF', [self.expr(d - 1), self.small(d - 1), self.small(d - 1)]]
        return ['call', 'NOT', [self.expr(d - 1)]]

    def expr(self, d, big=2):
        r = self.rng
        if d <= 0 or r.random() < 0.12:
            return self.leaf()
        name = r.choice(self.weighted)
        e = lambda: self.expr(d - 1, big)          # noqa: E731
        if name in VARIADIC:
            n = r.choice([2, 2, 2, 3, 3, 4, 5, 6])
            return ['call', name, [e() for _ in range(n)]]
        if name in ('POW', 'SHL', 'SHR'):
            if big <= 0:
                return ['call', 'MUL', [e(), e()]]
            base = self.expr(d - 1, big - 1)
            if big < 2:        # nested inside another POW/SHL operand: keep the integers of moderate size
                return ['call', name, [base, ['lit', r.choice(['0', '1', '2', '3', '-1', '0.5', '2'])]]]
            cnt = self.small(d - 1)
            if base[0] == 'call' and cnt[0] == 'lit' and cnt[1] in ('63', '64', '100', '400', '1000', '1074', '323', '324'):
                cnt = ['lit', r.choice(['2', '3', '10', '16'])]
            return ['call', name, [base, cnt]]
        if name == 'ROUND':
            if r.random() < 0.4:
                return ['call', name, [e()]]
            return ['call', name, [e(), self.small(d - 1)]]
        if name in ('LUT', 'LUTLI'):
            npts = r.choice([2, 2, 3, 3, 4, 5, 6])
            args = [e()]
            xs = []
            for _ in range(npts):
                if xs and r.random() < 0.2:
                    xv = r.choice(xs)                  # equal x's
                elif r.random() < 0.75:
                    xv = ['lit', r.choice(['0', '1', '2', '3', '4', '5', '10', '-5', '2.5', '7.5', '100', '-1', '1.5', '6'])]
                else:
                    xv = self.expr(d - 2, 0)
                xs.append(xv)
                z = r.random()
                if z < 0.45 or not self.good_ids:
                    yv = self.lit()
                elif z < 0.8:
                    yv = ['pv', r.choice(self.good_ids)]      # a table whose y's are port values (setpoints)
                else:
                    yv = self.expr(d - 2, 0)
                args += [xv, yv]
            if r.random() < 0.15:
                args.append(self.lit())               # dangling argument (ignored by the code)
            return ['call', name, args]
        return ['call', name, [e() for _ in range(FIXED[name])]]

    @property
    def weighted(self):
        w = getattr(self, '_w', None)
        if w is None:
            w = []
            for f in ALL_FUNCS:
                k = 3
                if f in ('ADD', 'IF', 'AND', 'OR', 'DEFAULT', 'AVAILABLE', 'LUT', 'LUTLI', 'MIN', 'MAX', 'MOD', 'DIV', 'ROUND'):
                    k = 6
                if f in ('TIME', 'TIMEMS'):
                    k = 1
                w += [f] * k
            self._w = w
        return w


def gen_value(rng, stream, profile=None):
    """A port value token."""
    p = profile or rng.choice(['smallint', 'smallint', 'int', 'float', 'float', 'bool', 'frac', 'bigint', 'edge'])
    if stream == 'nonfinite' and rng.random() < 0.3:
        return f2tok(rng.choice([math.inf, -math.inf, math.nan]))
    if p == 'smallint':
        return 'i%d' % rng.randint(-8, 12)
    if p == 'int':
        return 'i%d' % rng.choice([rng.randint(-1000, 1000), rng.randint(-10**6, 10**6), 0, 1, -1])
    if p == 'bool':
        return rng.choice(['b0', 'b1'])
    if p == 'frac':
        return f2tok(rng.choice([0.5, 1.5, 2.5, -0.5, -1.5, 0.1, 0.7, 2.675, -2.5, 3.5, 0.0, -0.0, 1.0, 2.0, -3.0]))
    if p == 'float':
        return f2tok(round(rng.uniform(-100, 100), rng.choice([0, 1, 2, 6])))
    if p == 'bigint':
        if stream == 'plain' and rng.random() < 0.7:
            return 'i%d' % rng.randint(-10**9, 10**9)
        return 'i%d' % rng.choice([2**53, 2**53 + 1, -(2**53) - 1, 2**63 - 1, 2**63, -(2**63), -(2**63) - 1, 2**64, 2**70 + 12345,
                                   10**30, -(10**30), 2**1023, 2**1024, 10**400, 3 * 2**62])
    # edge floats
    return f2tok(rng.choice([0.0, -0.0, 1e308, -1e308, 5e-324, 2.0**53, 2.0**53 + 2, 2.0**63, -2.0**63, 1e16, 0.49999999999999994,
                             4503599627370497.5, 1e-310, 1.7976931348623157e308, 2.0**70, 0.1 + 0.2, 1e22]))


def gen_case(rng, tier):
    x = rng.random()
    stream = 'plain' if x < 0.72 else ('boundary' if x < 0.90 else 'nonfinite')
    ports = {}
    vals = {}
    for pid in REGISTERED:
        y = rng.random()
        en = y >= 0.15
        last = None if rng.random() < 0.25 else gen_value(rng, stream)
        ports[pid] = {'en': en, 'last': last}
        z = rng.random()
        if z < 0.72 or (not en and z < 0.9):
            vals[pid] = gen_value(rng, stream)          # also for disabled ports: the code must not look at it
    if rng.random() < 0.3:
        vals[rng.choice(MISSING)] = gen_value(rng, stream)   # a context value for a port that does not exist
    self_id = rng.choice(REGISTERED + REGISTERED + MISSING)
    role = rng.choice([1, 1, 1, 2, 3, 4])
    now = rng.choice([rng.randint(0, 2 * 10**12), 1552559696654, 0, 999, 1000, 1999, -1, -1001, 2**53 * 1000 + 1,
                      rng.randint(-10**6, 10**6), 10**20 + 1, 1234567])
    pfail = rng.choice([0.0, 0.0, 0.0, 0.0, 0.03, 0.03, 0.08, 0.08, 0.2, 0.5])
    case = {'role': role, 'now': now, 'self': self_id, 'ports': ports, 'vals': vals, 'stream': stream, 'pfail': pfail}
    g = Gen(rng, tier, case, stream)
    maxd = rng.choice([1, 2, 2, 3, 3, 3, 4] if tier == 'quick' else [1, 2, 3, 3, 4, 4, 5, 6])
    if rng.random() < 0.02:
        tree = rng.choice([['pr', rng.choice(REGISTERED + MISSING)], ['sr'], ['sv'], ['pv', rng.choice(REGISTERED + MISSING)]])
    else:
        tree = g.expr(maxd)
        if tree[0] != 'call':
            tree = g.expr(maxd)
        tries = 0
        while size(tree) > (60 if tier == 'quick' else 120) and tries < 5:
            tree = g.expr(maxd - 1)
            tries += 1
    case['expr'] = tree
    if rng.random() < 0.3:
        case['steps'] = gen_steps(rng, case)
    return case


def ids_in(t, self_id, acc=None):
    acc = set() if acc is None else acc
    if t[0] == 'pv':
        acc.add(t[1])
    elif t[0] in ('sv', 'sr'):
        acc.add(self_id)
    elif t[0] == 'call':
        for a in t[2]:
            ids_in(a, self_id, acc)
    return acc


def _step_value(rng, stream, old_tok):
    """A new value for a port inside a context sequence. A port whose value was small (it may sit in an exponent / shift
    count / digits position) or that had no value stays small."""
    if old_tok is None or Gen._is_small(old_tok):
        return gen_value(rng, 'plain', rng.choice(['smallint', 'smallint', 'frac', 'bool']))
    return gen_value(rng, stream)


def gen_steps(rng, case):
    """1–3 further contexts for the SAME expression instance: some of the ports the tree reads change value, lose or gain
    their value, get disabled / enabled; the clock moves. Everything else (role, own port id, tree) stays."""
    used = sorted(i for i in ids_in(case['expr'], case['self']) if i in case['ports'])
    steps = []
    ports = {k: dict(v) for k, v in case['ports'].items()}
    vals = dict(case['vals'])
    now = case['now']
    for _ in range(rng.choice([1, 1, 2, 2, 3])):
        ports = {k: dict(v) for k, v in ports.items()}
        vals = dict(vals)
        pool = used or list(REGISTERED)
        for pid in rng.sample(pool, min(len(pool), rng.choice([1, 1, 2, 3]))):
            z = rng.random()
            if z < 0.70:
                vals[pid] = _step_value(rng, case['stream'], case['vals'].get(pid))        # new value, same availability
                if rng.random() < 0.5:
                    ports[pid]['last'] = _step_value(rng, case['stream'], case['ports'][pid]['last'])
            elif z < 0.80:
                vals.pop(pid, None)                                                       # loses its value
                ports[pid]['last'] = None
            elif z < 0.90:
                ports[pid]['en'] = not ports[pid]['en']
            else:
                ports[pid]['last'] = _step_value(rng, case['stream'], case['ports'][pid]['last'])
        if rng.random() < 0.3:
            now = now + rng.choice([1, 999, 1000, 60000, -5000])
        steps.append({'ports': ports, 'vals': vals, 'now': now})
    return steps
