"""Crash-injecting file-system shim for C08.

While `Shim.active()` is entered, the process-wide entry points through which Python code changes files
(`builtins.open`/`io.open`, `os.open`/`os.write`/`os.close`, `os.rename`/`os.replace`, `os.remove`/`os.unlink`,
`os.link`/`os.symlink`, `os.truncate`/`os.ftruncate`, `os.fsync`/`os.fdatasync`) and the read-only probes
(`os.stat`/`os.lstat`, hence `os.path.exists`) are replaced by wrappers that

  * act only on paths below the watched directory `root` (everything else passes through untouched);
  * record every *effectful primitive event* in order:
        ('create', path)            open for writing with create/truncate semantics ('w', 'x', O_CREAT|O_TRUNC, 'a' on a
                                    missing file)
        ('write', path, bytes)      bytes handed to the OS: at flush()/close()/buffer overflow for buffered files,
                                    immediately for os.write
        ('close', path)
        ('mv', src, dst)            os.rename / os.replace
        ('unlink', path)
        (other kinds — 'link', 'truncate', 'write-detached', 'open-inplace' … — are recorded verbatim; the model has no
        counterpart, so they surface as a correspondence difference, never silently);
  * with a crash plan `(r, jj)`: perform events 0 … r-1; if event r is a write, hand its first `jj` bytes to the OS;
    then raise `Crash` (a BaseException) and turn *dead*: from then on every wrapped call on the watched directory
    raises `Crash` again without any effect, and closing a file discards what it still buffers — exactly what a killed
    process would (not) do, although `finally:`/`__exit__` code still runs here.

Files opened for writing are replaced by `ShimFile`, an own buffered writer over an unbuffered OS-level file, so that
the moment at which bytes reach the OS is explicit (CPython's BufferedWriter semantics: bytes stay in user space until
flush/close or until the buffer overflows; `os.fsync` does not flush them).

This works at the `os`/`builtins` level on purpose: the code under test may use plain `open`, `tempfile`, `pathlib`,
`shutil` or `os.open` — all of them end up here.  Process-crash semantics only (a completed system call is durable).
"""
import builtins
import contextlib
import io
import os
import shutil

BUFSIZE = io.DEFAULT_BUFFER_SIZE


class Crash(BaseException):
    """The simulated process death."""


class ShimFile:
    """Buffered writer whose OS-level writes are shim events."""

    def __init__(self, shim, raw, path, text, encoding, newline, name, mode):
        self._shim = shim
        self._raw = raw
        self._path = path
        self._text = text
        self._encoding = encoding or 'utf-8'
        self._newline = newline
        self._buf = bytearray()
        self._closed = False
        self.detached = False
        self.name = name
        self.mode = mode

    # -- writing
    def _to_bytes(self, data):
        if self._text:
            if not isinstance(data, str):
                raise TypeError('write() argument must be str')
            if self._newline not in (None, '', '\n'):
                data = data.replace('\n', self._newline)
            return data.encode(self._encoding)
        return bytes(data)

    def write(self, data):
        if self._closed:
            raise ValueError('I/O operation on closed file.')
        self._shim._alive()
        b = self._to_bytes(data)
        self._buf += b
        if len(self._buf) > BUFSIZE:
            self._flush_os()
        return len(data)

    def writelines(self, lines):
        for line in lines:
            self.write(line)

    def _flush_os(self):
        if self._buf:
            data = bytes(self._buf)
            self._buf.clear()
            self._shim._write_event(self, data)

    def _os_write(self, data):
        view = memoryview(data)
        while len(view):
            n = self._raw.write(view)
            view = view[n:]

    def flush(self):
        if self._closed:
            raise ValueError('I/O operation on closed file.')
        self._shim._alive()
        self._flush_os()

    def close(self):
        if self._closed:
            return
        self._closed = True
        try:
            if not self._shim.dead:
                self._flush_os()
                self._shim._event(('close', self._path))
        finally:
            self._shim._forget(self)
            self._raw.close()

    # -- the rest of the file API
    @property
    def closed(self):
        return self._closed

    def fileno(self):
        return self._raw.fileno()

    def writable(self):
        return True

    def readable(self):
        return False

    def seekable(self):
        return False

    def tell(self):
        return self._raw.tell() + len(self._buf)

    def isatty(self):
        return False

    def truncate(self, size=None):
        self._shim._alive()
        self._flush_os()
        self._shim._event(('truncate', self._path, size))
        return self._raw.truncate(size)

    def seek(self, *a):
        self._shim._alive()
        self._flush_os()
        self._shim._event(('seek', self._path) + tuple(a))
        return self._raw.seek(*a)

    def __enter__(self):
        return self

    def __exit__(self, *exc):
        self.close()
        return False

    def __del__(self):
        try:
            self.close()
        except BaseException:
            pass


class Shim:
    def __init__(self, root, plan=None):
        self.root = os.path.realpath(root)
        self.plan = plan              # (event index, bytes of that event if it is a write) or None
        self.events = []
        self.probes = 0
        self.dead = False
        self._fds = {}                # fd -> path (os.open)
        self._open = []               # ShimFiles currently open
        self._saved = None

    # ---------------------------------------------------------------- helpers
    def _under(self, p):
        if isinstance(p, int):
            return None
        try:
            p = os.fspath(p)
        except TypeError:
            return None
        if isinstance(p, bytes):
            p = os.fsdecode(p)
        p = os.path.abspath(p)
        d = os.path.dirname(p)
        if d == self.root or d.startswith(self.root + os.sep):
            return p
        rd = os.path.realpath(d)
        if rd == self.root or rd.startswith(self.root + os.sep):
            return os.path.join(rd, os.path.basename(p))
        return None

    def _alive(self):
        if self.dead:
            raise Crash()

    def _die(self):
        self.dead = True
        raise Crash()

    def _event(self, ev):
        """An effectful event that is not a write: crash before it if planned, else record it."""
        self._alive()
        if self.plan is not None and len(self.events) == self.plan[0]:
            self._die()
        self.events.append(ev)

    def _write_event(self, f, data):
        self._alive()
        kind = 'write-detached' if f.detached else 'write'
        if self.plan is not None and len(self.events) == self.plan[0]:
            part = data[:self.plan[1]]
            if part:
                f._os_write(part)
            self._die()
        self.events.append((kind, f._path, data))
        f._os_write(data)

    def _forget(self, f):
        if f in self._open:
            self._open.remove(f)

    def _moved(self, path):
        for f in self._open:
            if f._path == path:
                f.detached = True

    # ---------------------------------------------------------------- wrappers
    def _w_open(self, file, mode='r', buffering=-1, encoding=None, errors=None, newline=None, closefd=True, opener=None):
        real = self._saved['io.open']
        writing = any(c in mode for c in 'wax+')
        text = 'b' not in mode
        if opener is not None and writing:
            # tempfile-style: the opener chooses the name and goes through our os.open wrapper (which records the create)
            obj = real(file, mode, buffering, encoding, errors, newline, closefd, opener)
            path = self._fds.pop(obj.fileno(), None)
            if path is None:
                return obj
            raw = obj
            while hasattr(raw, 'detach') and not isinstance(raw, io.RawIOBase):
                raw = raw.detach()
        else:
            path = self._fds.get(file) if isinstance(file, int) else self._under(file)
            if path is None:
                return real(file, mode, buffering, encoding, errors, newline, closefd, opener)
            self._alive()
            if not writing:
                self.probes += 1
                return real(file, mode, buffering, encoding, errors, newline, closefd, opener)
            raw_mode = ''.join(c for c in mode if c in 'wax+') + 'b'
            if isinstance(file, int):
                # fd from our os.open wrapper: its create event has been recorded there
                del self._fds[file]
                raw = real(file, raw_mode, 0, closefd=closefd)
            else:
                if '+' in mode and 'w' not in mode:
                    self._event(('open-inplace', path, mode))
                elif 'w' in mode or 'x' in mode or not os.path.lexists(path):
                    self._event(('create', path))
                else:
                    self._event(('open-append', path))
                raw = real(file, raw_mode, 0)
        f = ShimFile(self, raw, path, text, encoding, newline, file, mode)
        self._open.append(f)
        return f

    def _w_os_open(self, path, flags, mode=0o777, *, dir_fd=None):
        real = self._saved['os.open']
        p = self._under(path) if dir_fd is None else None
        if p is None:
            return real(path, flags, mode, dir_fd=dir_fd)
        self._alive()
        acc = flags & (os.O_WRONLY | os.O_RDWR)
        if not acc and not flags & os.O_CREAT:
            self.probes += 1
            return real(path, flags, mode)
        if flags & (os.O_TRUNC | os.O_EXCL) or (flags & os.O_CREAT and not os.path.lexists(p)):
            self._event(('create', p))
        elif flags & os.O_APPEND:
            self._event(('open-append', p))
        else:
            self._event(('open-inplace', p, flags))
        fd = real(path, flags, mode)
        self._fds[fd] = p
        return fd

    def _w_os_write(self, fd, data):
        real = self._saved['os.write']
        p = self._fds.get(fd)
        if p is None:
            return real(fd, data)
        self._alive()
        data = bytes(data)
        if self.plan is not None and len(self.events) == self.plan[0]:
            part = data[:self.plan[1]]
            if part:
                real(fd, part)
            self._die()
        self.events.append(('write', p, data))
        view = memoryview(data)
        while len(view):
            view = view[real(fd, view):]
        return len(data)

    def _w_os_close(self, fd):
        real = self._saved['os.close']
        p = self._fds.get(fd)
        if p is None:
            return real(fd)
        try:
            if not self.dead:
                self._event(('close', p))
        finally:
            self._fds.pop(fd, None)
            real(fd)

    def _two_paths(self, kind, name):
        real = self._saved[name]

        def w(src, dst, **kw):
            a, b = self._under(src), self._under(dst)
            if a is None and b is None:
                return real(src, dst, **kw)
            self._event((kind, a or os.fspath(src), b or os.fspath(dst)))
            if kind == 'mv':
                if a:
                    self._moved(a)
                if b:
                    self._moved(b)
            return real(src, dst, **kw)
        return w

    def _one_path(self, kind, name):
        real = self._saved[name]

        def w(path, *a, **kw):
            p = self._under(path)
            if p is None:
                return real(path, *a, **kw)
            self._event((kind, p) + tuple(a))
            if kind == 'unlink':
                self._moved(p)
            return real(path, *a, **kw)
        return w

    def _probe(self, name):
        real = self._saved[name]

        def w(path, *a, **kw):
            if self._under(path) is not None:
                self._alive()
                self.probes += 1
            return real(path, *a, **kw)
        return w

    def _sync(self, name):
        real = self._saved[name]

        def w(fd):
            ours = fd in self._fds or any(f._raw.fileno() == fd for f in self._open if not f._raw.closed)
            if not ours:
                return real(fd)
            # durability of completed system calls is assumed (process crash, not power loss): nothing to do
            self._alive()
            return None
        return w

    def _w_ftruncate(self, fd, length):
        real = self._saved['os.ftruncate']
        p = self._fds.get(fd)
        if p is None:
            for f in self._open:
                if not f._raw.closed and f._raw.fileno() == fd:
                    p = f._path
        if p is not None:
            self._event(('truncate', p, length))
        return real(fd, length)

    # ---------------------------------------------------------------- install
    @contextlib.contextmanager
    def active(self):
        targets = {
            'io.open': (io, 'open'), 'builtins.open': (builtins, 'open'),
            'os.open': (os, 'open'), 'os.write': (os, 'write'), 'os.close': (os, 'close'),
            'os.rename': (os, 'rename'), 'os.replace': (os, 'replace'),
            'os.remove': (os, 'remove'), 'os.unlink': (os, 'unlink'),
            'os.link': (os, 'link'), 'os.symlink': (os, 'symlink'),
            'os.truncate': (os, 'truncate'), 'os.ftruncate': (os, 'ftruncate'),
            'os.fsync': (os, 'fsync'), 'os.fdatasync': (os, 'fdatasync'),
            'os.stat': (os, 'stat'), 'os.lstat': (os, 'lstat'),
        }
        self._saved = {k: getattr(m, a) for k, (m, a) in targets.items() if hasattr(m, a)}
        repl = {
            'io.open': self._w_open, 'builtins.open': self._w_open,
            'os.open': self._w_os_open, 'os.write': self._w_os_write, 'os.close': self._w_os_close,
            'os.rename': self._two_paths('mv', 'os.rename'), 'os.replace': self._two_paths('mv', 'os.replace'),
            'os.remove': self._one_path('unlink', 'os.remove'), 'os.unlink': self._one_path('unlink', 'os.unlink'),
            'os.link': self._two_paths('link', 'os.link'), 'os.symlink': self._two_paths('symlink', 'os.symlink'),
            'os.truncate': self._one_path('truncate', 'os.truncate'), 'os.ftruncate': self._w_ftruncate,
            'os.fsync': self._sync('os.fsync'), 'os.fdatasync': self._sync('os.fdatasync'),
            'os.stat': self._probe('os.stat'), 'os.lstat': self._probe('os.lstat'),
        }
        fast = {k: getattr(shutil, k) for k in ('_USE_CP_SENDFILE', '_USE_CP_COPY_FILE_RANGE', '_HAS_FCOPYFILE')
                if hasattr(shutil, k)}
        try:
            for k, (m, a) in targets.items():
                if k in self._saved:
                    setattr(m, a, repl[k])
            for k in fast:
                setattr(shutil, k, False)       # keep shutil.copyfile on the write() path
            yield self
        finally:
            for k, (m, a) in targets.items():
                if k in self._saved:
                    setattr(m, a, self._saved[k])
            for k, v in fast.items():
                setattr(shutil, k, v)
            for f in list(self._open):
                # a file still open when the operation returned or died: a dead process writes nothing more;
                # a live one flushes when the object is finalised — do it now, deterministically
                try:
                    f.close()
                except BaseException:
                    pass
            for fd in list(self._fds):
                try:
                    self._saved['os.close'](fd)
                except OSError:
                    pass
            self._fds.clear()
