"""The real side of the C10 check: an in-process hub (device attributes + persistence + tornado application) and
the execution of one case step on it. Used by the worker processes directly and, for cases with real process
restarts, as a subprocess: `python -m harness.sub harness.hub_c10` reads {"file", "cfg", "steps", "state"} from
stdin, boots on the JSON persistence file, executes the steps and prints the observations as one JSON line."""
import asyncio
import datetime as _dt
import importlib
import io
import json
import logging
import sys
import warnings

from fractions import Fraction
from urllib.parse import urlsplit

from tornado.httpclient import AsyncHTTPClient, HTTPClientError, HTTPResponse
from tornado.httputil import HTTPHeaders

from harness import vclock
from harness.http_c10 import dispatch
from harness import jwtfacts_c10 as jf

SCAN_PATHS = ['/api/device', '/api/access', '/api/devices', '/api/ports', '/api/peripherals', '/api/webhooks',
              '/api/reverse', '/api/backup/endpoints', '/api/system', '/api/frontend/prefs']


class _VirtualDateTime(_dt.datetime):
    """PyJWT reads the clock through `datetime.now(tz=utc)`; the hub has ONE clock, the virtual one."""

    @classmethod
    def now(cls, tz=None):
        t = vclock.get()
        if t is None:
            return _dt.datetime.now(tz)
        return _dt.datetime.fromtimestamp(t, tz)


class SimSlave:
    """A simulated qToggle slave device behind the stub HTTP client (only for `online` slave cases): it verifies the
    Authorization header of every request with the standard library against ITS OWN current admin hash (the rules of
    the code as found: iat optional), answers GET /device, GET /ports, PATCH /device (admin_password changes its
    hash) and logs (header, its hash at that time, accepted?) for the oracle."""

    def __init__(self, name, key, hub):
        self.name = name
        self.key = key
        self.hub = hub
        self.log = []
        self.display_name = ''

    def handle(self, request):
        hub = self.hub
        path = urlsplit(request.url).path.rstrip('/') or '/'
        hdr = request.headers.get('Authorization')
        now = Fraction(hub.now_ticks, hub.tps)
        bad = ['no-header'] if not hdr else jf.strict(
            hdr, user='admin', key=self.key, origin=hub.consts['ori_consumer'], iss=hub.consts['iss'], now=now,
            skew=max(hub.settings.core.max_client_time_skew, 1))
        lenient = [b for b in bad if b != 'iat-absent']
        self.log.append([hdr, self.key, bad])
        if lenient:
            return 401, {'error': 'authentication-required'}
        if request.method == 'GET' and path == '/device':
            return 200, {'name': self.name, 'display_name': self.display_name, 'version': '1.0', 'api_version': '1.0',
                         'vendor': 'verif/sim', 'admin_password': 'set', 'normal_password': '', 'viewonly_password': '',
                         'flags': [], 'uptime': 1}
        if request.method == 'GET' and path == '/ports':
            return 200, []
        if request.method == 'PATCH' and path == '/device':
            body = json.loads(request.body or b'{}')
            if 'admin_password' in body:
                self.key = jf.pwhash(body['admin_password'])
            if 'display_name' in body:
                self.display_name = body['display_name']
            return 204, None
        return 404, {'error': 'no-such-function'}


class CaptureHTTPClient(AsyncHTTPClient):
    """Installed with tornado's public `AsyncHTTPClient.configure`: records the request the hub sends to a slave;
    answers through the simulated slave when there is one, else 599 (no network)."""
    last = None
    sim = None

    def fetch_impl(self, request, callback):
        CaptureHTTPClient.last = request
        sim = CaptureHTTPClient.sim
        if sim is None:
            callback(HTTPResponse(request, 599, error=HTTPClientError(599, 'captured by the C10 harness')))
            return
        code, body = sim.handle(request)
        buf = io.BytesIO(b'' if body is None else json.dumps(body).encode())
        callback(HTTPResponse(request, code, headers=HTTPHeaders({'Content-Type': 'application/json'}), buffer=buf))


class Hub:
    def __init__(self, file_path=None):
        logging.disable(logging.CRITICAL)
        warnings.simplefilter('ignore')
        vclock.install()
        from qtoggleserver.conf import settings
        settings.persist.driver = 'qtoggleserver.drivers.persist.JSONDriver'
        settings.persist.file_path = file_path
        settings.frontend.enabled = False
        settings.slaves.enabled = True
        from qtoggleserver import startup
        startup.logger = logging.getLogger('startup')
        import jwt.api_jwt
        jwt.api_jwt.datetime = _VirtualDateTime
        from qtoggleserver import persist
        from qtoggleserver.core import device as core_device
        from qtoggleserver.core.device import attrs as device_attrs
        from qtoggleserver.core.api import auth as core_auth
        from qtoggleserver.slaves import devices as slaves_devices
        from qtoggleserver.system import date as system_date
        from qtoggleserver.web import server as web_server
        self.settings = settings
        self.persist = persist
        self.core_device = core_device
        self.device_attrs = device_attrs
        self.auth = core_auth
        self.slaves_devices = slaves_devices
        self.app = web_server.get_application()
        self.consts = {
            'iss': core_auth.JWT_ISS, 'alg': core_auth.JWT_ALG, 'ori_consumer': core_auth.ORIGIN_CONSUMER,
            'ori_device': core_auth.ORIGIN_DEVICE, 'old_limit': system_date.OLD_TIME_LIMIT,
        }
        self.slave = None
        self.tps = 1024
        self.now_ticks = 0
        AsyncHTTPClient.configure(CaptureHTTPClient)

    # ------------------------------------------------------------------ state
    def set_clock(self, ticks):
        self.now_ticks = ticks
        vclock.set(ticks / self.tps)

    async def start(self, cfg, state, fresh):
        """cfg: {'tps','skew','t'}; state: {'disk': record or None, 'slave': hash or None}.
        fresh=True: also wipe the persisted record first (in-process reuse of the worker's hub)."""
        self.tps = cfg['tps']
        self.settings.core.max_client_time_skew = cfg['skew']
        self.set_clock(cfg['t'])
        if self.slave is not None:
            try:
                await self.slaves_devices.remove(self.slave)
            except Exception:
                pass
            self.slave = None
            CaptureHTTPClient.sim = None
        if fresh:
            # a case is one hub life: module-level state of the authentication module starts as in a new process,
            # so that cases (and the shrunk replays) do not depend on what the worker ran before
            importlib.reload(self.auth)
            await self.persist.remove('device')
            if state.get('disk') is not None:
                rec = {f'{u}_password_hash': v for u, v in state['disk'].items() if v != 'MISSING'}
                await self.persist.set_value('device', rec)
        await self.restart()
        CaptureHTTPClient.sim = None
        if state.get('slave'):
            mode = state.get('smode') or 'offline'
            kw = dict(poll_interval=0, listen_enabled=False, enabled=False, attrs={'flags': []})
            if mode == 'poll':
                kw.update(poll_interval=60)
            elif mode == 'listen':
                kw.update(listen_enabled=True, attrs={'flags': ['listen']})
            elif mode == 'online':
                CaptureHTTPClient.sim = SimSlave('c10slave', state['slave'], self)
                kw.update(poll_interval=3600, enabled=True, attrs=None)
            self.slave = await self.slaves_devices.add('http', '127.0.0.1', 1, '/', admin_password_hash=state['slave'],
                                                       name='c10slave', **kw)
            if mode == 'online':
                for _ in range(2000):
                    if self.slave.is_online() and self.slave.is_ready():
                        break
                    await asyncio.sleep(0)
                else:
                    raise RuntimeError('the simulated slave did not come online')
                for _ in range(20):          # let the first polling pass finish (GET /ports)
                    await asyncio.sleep(0)

    def drain_simlog(self):
        sim = CaptureHTTPClient.sim
        if sim is None:
            return []
        out, sim.log = sim.log, []
        return out

    def slave_state(self):
        """[hash the master holds for the slave (public accessor), the simulated slave's own hash]"""
        if self.slave is None:
            return None
        sim = CaptureHTTPClient.sim
        return [self.slave.get_admin_password_hash(), None if sim is None else sim.key]

    async def restart(self):
        """What a new process does to the password state: module attributes at their defaults, then device.load()."""
        importlib.reload(self.device_attrs)
        await self.core_device.load()

    def hashes(self):
        a = self.device_attrs
        return [getattr(a, f'{u}_password_hash', 'UNOBSERVED') for u in jf.USERS]

    async def record(self):
        rec = await self.persist.get_value('device')
        if rec is None:
            return None
        return [rec.get(f'{u}_password_hash') for u in jf.USERS]

    def _admin_header(self, admin_key):
        # an independent, valid admin token for the harness' own administrative calls
        now = self.now_ticks // self.tps if self.now_ticks % self.tps == 0 else self.now_ticks / self.tps   # exact
        return jf.build({'hdr': {'alg': 'HS256', 'typ': 'JWT'},
                         'claims': {'iss': self.consts['iss'], 'ori': self.consts['ori_consumer'], 'usr': 'admin', 'iat': now},
                         'key': admin_key})

    # ------------------------------------------------------------------ steps
    async def exec(self, step, admin_key):
        o = await self._exec(step, admin_key)
        if CaptureHTTPClient.sim is not None:
            for _ in range(5):
                await asyncio.sleep(0)
            o['simlog'] = self.drain_simlog()
            o['slave_state'] = self.slave_state()
        return o

    async def _exec(self, step, admin_key):
        """Returns a JSON-able observation. `admin_key`: the hash the harness knows to be the current admin one
        (from the passwords it set itself), used for its own administrative requests."""
        kind = step[0]
        if kind == 'at':
            self.set_clock(step[1])
            return {'k': 'at'}
        if kind == 'req':
            hdr = step[1]
            st, body = await dispatch(self.app, 'GET', '/api/access', {} if hdr is None else {'Authorization': hdr})
            level = None
            if st == 200:
                try:
                    level = json.loads(body)['level']
                except Exception:
                    level = None
            return {'k': 'req', 'status': st, 'level': level if level is not None else 'none', 'body': body.decode('utf-8', 'replace')}
        if kind == 'dev':
            hdr = step[1]
            h = {'Content-Type': 'application/json'}
            if hdr is not None:
                h['Authorization'] = hdr
            st, body = await dispatch(self.app, 'POST', '/api/devices/c10slave/events', h, b'{}')
            return {'k': 'dev', 'status': st, 'body': body.decode('utf-8', 'replace')}
        if kind == 'set':
            _, user, pw = step
            st, body = await dispatch(self.app, 'PATCH', '/api/device',
                                      {'Authorization': self._admin_header(admin_key), 'Content-Type': 'application/json'},
                                      json.dumps({f'{user}_password': pw}).encode())
            return {'k': 'set', 'status': st, 'body': body.decode('utf-8', 'replace'), 'hashes': self.hashes(),
                    'record': await self.record()}
        if kind == 'restart':
            await self.restart()
            return {'k': 'restart', 'hashes': self.hashes(), 'record': await self.record()}
        if kind == 'put':
            ah = {'Authorization': self._admin_header(admin_key), 'Content-Type': 'application/json'}
            st0, body0 = await dispatch(self.app, 'GET', '/api/device', ah)
            doc = {}
            if st0 == 200:
                doc = json.loads(body0)
                doc.pop('definitions', None)
            doc.update(step[1] or {})
            st, body = await dispatch(self.app, 'PUT', '/api/device', ah, json.dumps(doc).encode())
            return {'k': 'put', 'status': st, 'get_status': st0, 'body': body0.decode('utf-8', 'replace') + body.decode('utf-8', 'replace'),
                    'hashes': self.hashes(), 'record': await self.record()}
        if kind == 'make':
            _, okind, usr, key = step[:4]
            origin = self.consts['ori_consumer'] if okind == 'consumer' else self.consts['ori_device']
            try:
                hdr = self.auth.make_auth_header(origin, usr, key)
            except Exception as e:
                return {'k': 'make', 'error': type(e).__name__}
            return {'k': 'make', 'hdr': hdr}
        if kind == 'slavecall':
            CaptureHTTPClient.last = None
            try:
                await self.slave.api_call('GET', '/device', retry_counter=None)
            except Exception:
                pass
            req = CaptureHTTPClient.last
            return {'k': 'slavecall', 'hdr': None if req is None else req.headers.get('Authorization')}
        if kind == 'spatch':
            st, body = await dispatch(self.app, 'PATCH', '/api/devices/c10slave/forward/device',
                                      {'Authorization': self._admin_header(admin_key), 'Content-Type': 'application/json'},
                                      json.dumps(step[1]).encode())
            return {'k': 'spatch', 'status': st, 'body': body.decode('utf-8', 'replace')}
        if kind == 'scan':
            ah = {'Authorization': self._admin_header(admin_key)}
            out = []
            for path in SCAN_PATHS:
                st, body = await dispatch(self.app, 'GET', path, ah)
                out.append([path, st, body.decode('utf-8', 'replace')])
            return {'k': 'scan', 'responses': out}
        raise ValueError(f'unknown step {step!r}')


def main(args):
    job = json.loads(sys.stdin.read())
    loop = asyncio.new_event_loop()
    asyncio.set_event_loop(loop)
    hub = Hub(job['file'])

    async def run():
        await hub.start(job['cfg'], job['state'], fresh=False)
        obs = [{'k': 'boot', 'hashes': hub.hashes(), 'record': await hub.record()}]
        for step, admin_key in zip(job['steps'], job['admin_keys']):
            obs.append(await hub.exec(step, admin_key))
        return obs

    obs = loop.run_until_complete(run())
    sys.stdout.write('\nC10OBS ' + json.dumps(obs) + '\n')
    sys.stdout.flush()
    return 0
