"""In-process dispatch through the real tornado Application (C10): a request goes
routing table -> handler class -> `prepare()` -> handler method -> API function, and the response is captured
as it is written to the connection (status line, headers, body). No socket is involved."""
import asyncio

from tornado.httputil import HTTPHeaders, HTTPServerRequest


class CaptureConnection:
    """The subset of tornado's HTTP1Connection a RequestHandler uses to answer."""

    def __init__(self):
        self.status = None
        self.headers = None
        self.body = b''
        self.done = asyncio.Event()

    def set_close_callback(self, callback):
        pass

    def write_headers(self, start_line, headers, chunk=None):
        self.status = start_line.code
        self.headers = headers
        if chunk:
            self.body += chunk
        f = asyncio.Future()
        f.set_result(None)
        return f

    def write(self, chunk):
        self.body += chunk
        f = asyncio.Future()
        f.set_result(None)
        return f

    def finish(self):
        self.done.set()


async def dispatch(app, method, uri, headers=None, body=None, timeout=20.0):
    """Returns (status, body bytes) of the response the application writes for this request."""
    conn = CaptureConnection()
    h = HTTPHeaders()
    for k, v in (headers or {}).items():
        h[k] = v        # mapping assignment: no field-value filtering, every text reaches the handler
    req = HTTPServerRequest(method=method, uri=uri, headers=h, body=body or b'', connection=conn, host='localhost')
    delegate = app.find_handler(req)
    fut = delegate.execute()
    if fut is not None:
        try:
            await fut
        except Exception:
            pass   # prepare() raised: the handler answers through _handle_request_exception
    await asyncio.wait_for(conn.done.wait(), timeout)
    return conn.status, conn.body
