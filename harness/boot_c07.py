"""One *boot* of the real hub in a fresh process (C07): `python -m harness.sub harness.boot_c07 <spec.json> <out.json>`.

Boots qtoggleserver with the repo's own startup.init_* sequence (DESIGN Appendix B) on the persistence store named in
the spec, dumps what the hub reports right after the boot (GET /ports, GET /device, GET /devices through the API
functions, plus every driver write_value call made while loading), then runs the spec's API operations, lets the hub
save (its own save loop / the saves the API functions make), dumps again, runs the matching cleanup_* sequence and exits.
A restart is therefore always a new interpreter: no module-level registry survives.
"""
import asyncio
import json
import logging
import sys
import traceback


class _Req:
    def __init__(self, method='GET', path='/'):
        self.headers = {}
        self.method = method
        self.path = path
        self.query_arguments = {}
        self.body = b''


class FakeHandler:
    def __init__(self, level=30, method='GET', path='/'):
        self.access_level = level
        self.username = 'admin'
        self.request = _Req(method, path)

    def decode_argument(self, v, name=None):
        return v.decode()


def _err(e):
    from qtoggleserver.core import api as core_api
    if isinstance(e, core_api.APIError):
        p = e.params
        extra = p.get('field') or p.get('attribute') or p.get('id') or ''
        return f'err:{e.status}:{e.code}:{extra}'
    return 'exc:' + type(e).__name__


async def _settle(n=4):
    from qtoggleserver.core import main as core_main
    for _ in range(n):
        await core_main.update()
        for _ in range(5):
            await asyncio.sleep(0)


async def _dump():
    from qtoggleserver.core.api.funcs import ports as f_ports, device as f_device
    from qtoggleserver.slaves.api.funcs import devices as f_devices
    from qtoggleserver.conf import settings
    h = FakeHandler()
    d = {'ports': await f_ports.get_ports(h), 'device': await f_device.get_device(h)}
    if settings.slaves.enabled:
        d['devices'] = await f_devices.get_slave_devices(h)
        for s in d['devices']:
            # webhooks parameters cached for an offline slave (pending edits), as GET /devices/<name>/forward/webhooks
            # answers them
            try:
                s['webhooks'] = await f_devices.slave_device_forward(FakeHandler(method='GET'), s['name'], '/webhooks')
            except Exception:
                s['webhooks'] = None
    return json.loads(json.dumps(d))      # plain JSON (tuples -> lists, etc.)


def _vals():
    """last read value of every port (public accessor), also for disabled ports"""
    from qtoggleserver.core import ports as core_ports
    return {p.get_id(): p.get_last_read_value() for p in core_ports.get_all()}


def _hashes():
    from qtoggleserver.core.device import attrs as device_attrs
    return {k: getattr(device_attrs, k + '_password_hash') for k in ('admin', 'normal', 'viewonly')}


def _creds(passwords):
    """credentials acceptance: for each API user, which of the candidate passwords the hub accepts right now - a
    consumer's Authorization header (JWT signed with the password hash, made by the repo's own make_auth_header) goes
    through the repo's parse_auth_header with the hub's password lookup, as web/base.py does for every request"""
    import hashlib
    from qtoggleserver.core.api import auth as core_api_auth
    res = {}
    for usr in ('admin', 'normal', 'viewonly'):
        acc = []
        for pw in passwords:
            hdr = core_api_auth.make_auth_header(core_api_auth.ORIGIN_CONSUMER, usr, hashlib.sha256(pw.encode()).hexdigest())
            try:
                acc.append(core_api_auth.parse_auth_header(hdr, core_api_auth.ORIGIN_CONSUMER,
                                                           core_api_auth.consumer_password_hash_func) == usr)
            except core_api_auth.AuthError:
                acc.append(False)
        res[usr] = acc
    return res


async def _run_op(op):
    from qtoggleserver.core.api.funcs import ports as f_ports, device as f_device
    from qtoggleserver.slaves.api.funcs import devices as f_devices
    from qtoggleserver.core import ports as core_ports, main as core_main
    import copy
    kind = op[0]
    h = FakeHandler(method='PATCH')
    try:
        if kind == 'add':
            await f_ports.post_ports(h, copy.deepcopy(op[1]))
        elif kind == 'patch':
            await f_ports.patch_port(h, op[1], copy.deepcopy(op[2]))
        elif kind == 'del':
            await f_ports.delete_port(h, op[1])
        elif kind == 'val':
            await f_ports.patch_port_value(h, op[1], op[2])
            await _settle(3)
        elif kind == 'dev':
            await f_device.patch_device(h, copy.deepcopy(op[1]))
        elif kind == 'devput':
            # PUT /device (restore of a backup): GET /device is fed back, with the modifications of the case
            mods = op[1] or {}
            doc = json.loads(json.dumps(await f_device.get_device(FakeHandler(method='GET'))))
            for n in mods.get('drop', []):
                doc.pop(n, None)
            doc.update(copy.deepcopy(mods.get('set', {})))
            await f_device.put_device(FakeHandler(method='PUT'), doc)
        elif kind == 'sadd':
            await f_devices.post_slave_devices(FakeHandler(method='POST'), copy.deepcopy(op[1]))
            await _settle(2)
        elif kind == 'sput':
            await f_devices.put_slave_devices(FakeHandler(method='PUT'), copy.deepcopy(op[1]))
        elif kind == 'sfwd':
            await f_devices.slave_device_forward(FakeHandler(method='PATCH'), op[1], '/device', copy.deepcopy(op[2]))
        elif kind == 'seq':
            await f_ports.patch_port_sequence(FakeHandler(method='PATCH'), op[1], copy.deepcopy(op[2]))
        elif kind == 'sfwdw':
            await f_devices.slave_device_forward(FakeHandler(method='PATCH'), op[1], '/webhooks', copy.deepcopy(op[2]))
        elif kind == 'failnext':
            from harness import persist_c07
            persist_c07.arm(op[1])
        elif kind == 'disarm':
            from harness import persist_c07
            persist_c07.disarm()
        elif kind == 'sdel':
            await f_devices.delete_slave_device(h, op[1])
        elif kind == 'spatch':
            await f_devices.patch_slave_device(h, op[1], copy.deepcopy(op[2]))
        elif kind == 'tick':
            await _settle(op[1])
        elif kind == 'sleep':
            await asyncio.sleep(op[1] / 1000.0)
        elif kind == 'save':
            for p in core_ports.get_all():
                await p.save()
        else:
            return 'bad-op'
    except Exception as e:
        return _err(e)
    for _ in range(3):
        await asyncio.sleep(0)
    return 'ok'


async def _amain(spec, out):
    from qtoggleserver import startup
    from qtoggleserver.conf import settings
    from qtoggleserver.core import main as core_main
    from harness import ports_c07

    startup.logger = logging.getLogger('qtoggleserver')
    p = spec['persist']
    if p['driver'] == 'json':
        settings.persist.driver = 'harness.persist_c07.FaultyJSONDriver'
        settings.persist.file_path = p['file_path']
    elif p['driver'] == 'redis':
        settings.persist.driver = 'harness.persist_c07.FaultyRedisDriver'
        settings.persist.host = p['host']
        settings.persist.port = p['port']
        settings.persist.db = p.get('db', 0)
        settings.persist.samples_support = bool(p.get('samples_support', False))
        if hasattr(settings.persist, 'file_path'):
            del settings.persist.file_path
    else:
        raise ValueError(p['driver'])
    settings.ports = [dict(driver='harness.ports_c07.LoggingPort', **sp) for sp in spec.get('static_ports', [])]
    settings.slaves.enabled = bool(spec.get('slaves', True))
    settings.frontend.enabled = False
    settings.core.persist_interval = int(spec.get('persist_interval', 2000))
    if spec.get('virtual_ports'):
        settings.core.virtual_ports = int(spec['virtual_ports'])

    # instrument the virtual-port driver: virtual ports are their own drivers
    from qtoggleserver.core import vports as core_vports
    orig_write = core_vports.VirtualPort.write_value

    async def logged_write(self, value):
        ports_c07.WRITES.append([self.get_id(), value])
        return await orig_write(self, value)
    core_vports.VirtualPort.write_value = logged_write

    if spec.get('remotes'):
        from tornado.httpclient import AsyncHTTPClient
        from harness import simslave_c07
        simslave_c07.REMOTES.update(spec['remotes'])
        simslave_c07.STATE['up'] = bool(spec.get('remotes_up', True))
        AsyncHTTPClient.configure('harness.simslave_c07.FakeClient')

    for f in ('init_loop', 'init_system', 'init_persist', 'init_peripherals', 'init_events', 'init_sessions',
              'init_history', 'init_device', 'init_webhooks', 'init_reverse', 'init_ports', 'init_slaves', 'init_main'):
        await getattr(startup, f)()
    out['load_writes'] = list(ports_c07.WRITES)          # driver writes made by the boot (load) itself
    await _settle(4)
    out['boot'] = await _dump()
    out['boot_vals'] = _vals()
    out['boot_hashes'] = _hashes()
    out['boot_creds'] = _creds(spec.get('passwords', ['']))
    out['boot_writes'] = list(ports_c07.WRITES)          # ... plus those of the first polling passes
    out['op_results'] = []
    out['op_vals'] = []
    for op in spec.get('ops', []):
        out['op_results'].append(await _run_op(op))
        out['op_vals'].append(_vals())
    await _settle(4)
    # "a save": whatever the API functions saved themselves plus one period of the hub's own save loop
    await asyncio.sleep(settings.core.persist_interval / 1000.0 * 1.5)
    await _settle(2)
    out['final'] = await _dump()
    out['final_vals'] = _vals()
    out['final_hashes'] = _hashes()
    out['final_creds'] = _creds(spec.get('passwords', ['']))
    for f in ('cleanup_main', 'cleanup_ports', 'cleanup_slaves', 'cleanup_reverse', 'cleanup_webhooks',
              'cleanup_device', 'cleanup_history', 'cleanup_sessions', 'cleanup_events', 'cleanup_peripherals',
              'cleanup_persist', 'cleanup_system'):
        await getattr(startup, f)()


def main(args):
    spec = json.load(open(args[0]))
    out = {'ok': False}
    logging.disable(logging.CRITICAL)
    from harness import vloop
    loop = vloop.new_loop()
    try:
        loop.run_until_complete(_amain(spec, out))
        out['ok'] = True
    except BaseException:
        out['error'] = traceback.format_exc()[-4000:]
    with open(args[1], 'w') as f:
        json.dump(out, f)
    return 0
