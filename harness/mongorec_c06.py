"""A recording stand-in for pymongo.MongoClient: the C06 check lets the real MongoDriver talk to it to observe the
engine calls mongo.py builds (filter / projection / sort / limit dicts, documents), which are compared with the
Lean model of the translation (Mongo.filtToDb, projToDb, sortToDb, recordToDoc, recordFromDoc)."""
import bson


class _Res:
    def __init__(self, **kw):
        self.__dict__.update(kw)


class RecCursor:
    def __init__(self, call, docs):
        self.call, self.docs = call, docs

    def sort(self, spec):
        self.call['sort'] = list(spec)
        return self

    def limit(self, n):
        self.call['limit'] = n
        return self

    def __iter__(self):
        return iter([dict(d) for d in self.docs])


class RecColl:
    def __init__(self, client):
        self.client = client

    def find(self, filt=None, projection=None):
        call = {'op': 'q', 'filt': filt, 'proj': projection, 'sort': [], 'limit': None}
        self.client.calls.append(call)
        return RecCursor(call, self.client.docs)

    def insert_one(self, doc):
        self.client.calls.append({'op': 'i', 'doc': doc})
        return _Res(inserted_id=doc.get('_id', bson.ObjectId(b'\x01' * 12)))

    def update_many(self, filt, update, upsert=False):
        self.client.calls.append({'op': 'u', 'filt': filt, 'update': update})
        return _Res(modified_count=0, matched_count=0)

    def replace_one(self, filt, doc, upsert=False):
        self.client.calls.append({'op': 'p', 'filt': filt, 'doc': doc})
        return _Res(matched_count=0)

    def delete_many(self, filt):
        self.client.calls.append({'op': 'd', 'filt': filt})
        return _Res(deleted_count=0)

    def create_index(self, *a, **kw):
        pass


class RecDb:
    def __init__(self, client):
        self.client = client

    def __getitem__(self, name):
        return RecColl(self.client)


class RecClient:
    last = None

    def __init__(self, *a, **kw):
        self.calls = []
        self.docs = []
        RecClient.last = self

    def __getitem__(self, name):
        return RecDb(self)

    def close(self):
        pass
