"""In-memory persistence driver that reports samples support, so that `history.is_enabled()` follows
`settings.core.history_support` and the HISTORY function can be exercised both enabled and disabled (C03)."""
from qtoggleserver.drivers.persist import JSONDriver


class SamplesDriver(JSONDriver):
    def is_samples_supported(self) -> bool:
        return True
