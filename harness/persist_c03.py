"""In-memory persistence driver whose samples support can be switched by the harness (C03).

`history.is_enabled()` is `persist.is_samples_supported() and settings.core.history_support`: with this driver the
harness can put the hub in each of the configurations "history on" (samples supported and history_support on) and
"history off" (driver without samples support, or history_support off, or both), so that the HISTORY function is
exercised both as a known and as an unknown function."""
from qtoggleserver.drivers.persist import JSONDriver


class SamplesDriver(JSONDriver):
    samples_supported = True        # class attribute, switched by harness/props/c03.py:_configure

    def is_samples_supported(self) -> bool:
        return bool(type(self).samples_supported)
