"""Corpus of the C06 check: witnesses of the recorded findings (first: one per worker shard), witnesses of the
repaired defects (they fail on the code as found), and targeted regression cases. Always run before the
generated cases."""
import datetime

from harness.props.c06 import GenRef, enc


def ins(coll, rec, tag=0):
    return ['insert', coll, enc(rec), tag]


def qry(coll, fields=None, filt=None, sort=None, limit=None):
    return ['query', coll, fields, enc(filt or {}), sort or [], limit]


def upd(coll, part, filt):
    return ['update', coll, enc(part), enc(filt)]


def rep(coll, id_, rec):
    return ['replace', coll, enc(id_), enc(rec)]


def rem(coll, filt):
    return ['remove', coll, enc(filt)]


def known(fid, only, ops):
    return {'ops': ops, 'only': only, 'probe': fid}


KNOWN = [
    known('C06-mongo-int64', ['mongo'], [ins('c0', {'id': 'a', 'n': 2 ** 64}), qry('c0')]),
    known('C06-mongo-date-types', ['mongo'], [ins('c0', {'id': 'a', 'd': datetime.date(2020, 1, 2)}), qry('c0')]),
    known('C06-mongo-key-syntax', ['mongo'], [ins('c0', {'id': 'a', '$z': 2}), qry('c0')]),
    known('C06-mongo-degenerate-args', ['mongo'], [ins('c0', {'id': 'a', 'n': 1}), qry('c0', fields=[])]),
    known('C06-mongo-matching-semantics', ['mongo'],
          [ins('c0', {'id': 'a', 'x': 1}), ins('c0', {'id': 'b'}), qry('c0', filt={'x': None})]),
    known('C06-mongo-update-modified-count', ['mongo'], [ins('c0', {'id': 'a', 'n': 1}), upd('c0', {'n': 1}, {'id': 'a'})]),
    known('C06-mongo-sort-id', ['mongo'],
          [ins('c0', {'id': '10', 'n': 1}), ins('c0', {'id': '9', 'n': 2}), qry('c0', sort=[['id', False]])]),
    known('C06-ext-tag-clash', ['redis'],
          [ins('c0', {'id': 'a', 'p': {'__t': '__d', '__v': '2020-01-02'}}), qry('c0')]),
    known('C06-date-before-1000', ['redis'], [ins('c0', {'id': 'a', 'd': datetime.date(999, 1, 2)}), qry('c0')]),
    known('C06-mongo-date-types', ['mongo'],
          [ins('c0', {'id': 'a', 'd': datetime.datetime(2020, 1, 2, 3, 4, 5, 678901)}), qry('c0')]),
    known('C06-mongo-degenerate-args', ['mongo'], [ins('c0', {'id': 'a', 'n': 1}), qry('c0', limit=0)]),
    known('C06-mongo-matching-semantics', ['mongo'], [ins('c0', {'id': 'a', 'l': [1, 2]}), qry('c0', filt={'l': 1})]),
    known('C06-ext-tag-clash', ['jfile'],
          [ins('c0', {'id': 'a', 'p': [{'__t': '__dt', '__v': '2020-01-02T03:04:05.000006Z'}]}), ['reload'], qry('c0')]),
    {'kind': 'codec', 'probe': 'C06-ext-tag-clash', 'values': [enc({'__t': '__d', '__v': '2020-1-2'})]},
    {'kind': 'codec', 'probe': 'C06-date-before-1000', 'values': [enc([datetime.datetime(33, 3, 3, 3, 3, 3)])]},
]

def known_slice(shards):
    """A worker stops after three failures (recorded findings included): hand every shard at most two witnesses
    of recorded findings (first one witness per finding, then the further sub-cases)."""
    order = []
    seen = set()
    for c in KNOWN:
        if c['probe'] not in seen:
            seen.add(c['probe'])
            order.append(c)
    order += [c for c in KNOWN if c not in order]
    return order[:max(0, 2 * shards)]

FIXED = [
    # utils/json.py dumps(str) fast path: quote, backslash, control and non-ASCII characters through the Redis driver
    {'ops': [ins('c0', {'id': 'a', 's': 'x"y'}), qry('c0')], 'only': ['redis']},
    {'ops': [ins('c0', {'id': 'a', 's': 'x\\by'}), qry('c0'), qry('c0', filt={'s': 'x\\by'})], 'only': ['redis']},
    {'ops': [ins('c0', {'id': 'a', 's': 'x\ny', 'p': '\x00\x1f', 'q': '\\'}), qry('c0', sort=[['s', False]])], 'only': ['redis']},
    {'kind': 'codec', 'values': [enc(v) for v in ['"', '\\', 'a\\"', '\n', '\\u0041', 'é\U0001F600', '', '\x7f']]},
    # JSON driver: update by id ignores the rest of the filter
    {'ops': [ins('c0', {'id': 'a', 'n': 1}), upd('c0', {'m': 5}, {'id': 'a', 'n': 2}), qry('c0')], 'only': ['jmem', 'jfile', 'api']},
    # Redis driver: remove by id with a non-matching filter drops the id from the id set
    {'ops': [ins('c0', {'id': 'a', 'n': 1}), rem('c0', {'id': 'a', 'n': 2}), qry('c0'), qry('c0', filt={'id': 'a'})], 'only': ['redis']},
    # Redis driver: a record without fields is not found by id
    {'ops': [ins('c0', {'id': 'a'}), qry('c0', filt={'id': 'a'}), upd('c0', {'n': 1}, {'id': 'a'}), qry('c0')], 'only': ['redis']},
    {'ops': [ins('c0', {}, 1), rem('c0', {'id': GenRef(1)}), qry('c0')], 'only': ['redis']},
    # Redis driver: update with an empty part deletes the fields (generic path) / raises (by id)
    {'ops': [ins('c0', {'id': 'a', 'n': 1}), upd('c0', {}, {}), qry('c0'), qry('c0', filt={'id': 'a'})], 'only': ['redis']},
    {'ops': [ins('c0', {'id': 'a', 'n': 1}), upd('c0', {}, {'id': 'a'}), qry('c0')], 'only': ['redis']},
    # Redis driver: the id counter runs into an id given explicitly
    {'ops': [ins('c0', {'id': '3', 'n': 1}), ins('c0', {'n': 2}, 1), ins('c0', {'n': 3}, 2), ins('c0', {'n': 4}, 3),
             qry('c0', fields=['id'])], 'only': ['redis']},
    # persist.replace returns the opposite of what its contract says
    {'ops': [rep('c0', 'a', {'n': 1}), rep('c0', 'a', {'n': 2}), qry('c0')], 'only': ['api']},
]

UP = 'DEADBEEF00112233AABBCCDD'

REGRESSION = [
    # what mongo.py hands to the engine: id -> _id with mapped operands, operators, projection incl. _id, sort spec, documents
    {'kind': 'xlate', 'ops': [
        qry('c0', fields=['n', 'id'], filt={'id': {'in': ['a', '0123456789abcdef01234567', UP]}, 'n': {'ge': 1, 'lt': 9}}, sort=[['n', True], ['s', False]], limit=3),
        qry('c0', fields=['n'], filt={'s': 'x"y', 'id': '0123456789abcdef01234567'}), qry('c0', filt={'n': {'in': [1, 2]}, 'l': [1, 2]}),
        ins('c0', {'id': '0123456789abcdef01234567', 'n': 1}), ins('c0', {'n': 2}, 1), upd('c0', {'n': 3, 's': 'z'}, {'id': 'a', 'n': {'gt': 0}}),
        rep('c0', UP.lower(), {'n': 4}), rem('c0', {'id': {'in': [UP.lower()]}}), qry('c0', filt={'n': {'xx': 1}}), qry('c0', fields=[])]},
    # explicit ids that look like ObjectIds, in both cases: two different records, each addressed by its own spelling
    {'ops': [ins('c0', {'id': UP, 'n': 1}), qry('c0', filt={'id': UP}), ins('c0', {'id': UP.lower(), 'n': 2}),
             qry('c0', sort=[['n', False]]), rem('c0', {'id': UP.lower()}), qry('c0'), upd('c0', {'n': 5}, {'id': {'in': [UP.lower(), UP]}}),
             rep('c0', UP.lower(), {'n': 7}), qry('c0', fields=['id'])]},
    # repaired: 24 lower-case hex digits and a newline is an ordinary string id (regex `$` used to match before the newline)
    {'kind': 'ids', 'ids': ['0123456789abcdef01234567\n']},
    {'ops': [ins('c0', {'id': '0123456789abcdef01234567\n', 'n': 1}), ins('c0', {'id': '0123456789abcdef01234567', 'n': 2}),
             qry('c0', sort=[['n', False]]), rem('c0', {'id': '0123456789abcdef01234567\n'}), qry('c0')], 'only': ['mongo', 'redis', 'jmem']},
    {'kind': 'ids', 'ids': [UP, UP.lower(), 'DeadBeef00112233aabbccDD', UP[:23], UP + '0', 'abcdefabcdef', '', '0' * 24, 'G' * 24]},
    # ids around the id counters and in key syntax
    {'ops': [ins('c0', {'id': '01', 'n': 1}), ins('c0', {'n': 2}, 1), ins('c0', {'id': '1.0', 'n': 3}), ins('c0', {'id': ' 1', 'n': 4}),
             ins('c0', {'n': 5}, 2), ins('c0', {'id': 'c0:a', 'n': 6}), ins('c1', {'id': 'a', 'n': 7}), ins('c0', {'id': '-id-set', 'n': 8}),
             qry('c0', sort=[['n', False]]), qry('c1'), rem('c0', {'id': '1'}), rem('c0', {'id': 'a'}), qry('c0', fields=['id', 'n'], sort=[['n', True]])]},
    # ties, multi-key sort, limit cutting a tie group
    {'ops': [ins('c0', {'id': 'a', 'n': 1, 's': 'b'}), ins('c0', {'id': 'b', 'n': 1, 's': 'a'}), ins('c0', {'id': 'c', 'n': 0, 's': 'c'}),
             ins('c0', {'id': 'd', 'n': 1, 's': 'a'}),
             qry('c0', sort=[['n', True]]), qry('c0', sort=[['n', True], ['s', False]]), qry('c0', sort=[['s', False], ['n', True]]),
             qry('c0', sort=[['n', True]], limit=2), qry('c0', sort=[['n', False], ['s', True]], limit=3, fields=['id'])]},
    # generated ids: allocation after removals, sort by id, id-in filters
    {'ops': [ins('c0', {'n': 1}, 1), ins('c0', {'n': 2}, 2), rem('c0', {'n': 2}), ins('c0', {'n': 3}, 3),
             ins('c0', {'id': '7', 'n': 4}), ins('c0', {'n': 5}, 4), qry('c0', fields=['id', 'n'], sort=[['n', False]]),
             qry('c0', filt={'id': {'in': [GenRef(1), GenRef(3), GenRef(2)]}}), upd('c0', {'q': 'z'}, {'id': GenRef(3)}),
             rep('c0', GenRef(4), {'n': 9}), qry('c0', sort=[['n', True]])]},
    {'ops': [ins('c1', {'n': i % 3}, i + 1) for i in range(12)] + [qry('c1', sort=[['id', False]]), qry('c1', sort=[['id', True]], limit=4),
                                                                   qry('c1', sort=[['n', False], ['id', True]])]},
    # the JSON file, re-opened, with every kind of value
    {'ops': [ins('c0', {'id': 'a', 's': 'x"y\\\n\x00é\U0001F600', 'n': 2 ** 70, 'p': [1.5, -0.0, 1e300, 5e-324, None, True, {'k"': []}],
                        'd': datetime.date(2020, 2, 29), 'q': datetime.datetime(2020, 1, 2, 3, 4, 5, 678901)}),
             ['reload'], qry('c0'), upd('c0', {'n': 1}, {'s': 'x"y\\\n\x00é\U0001F600'}), ['reload'], qry('c0', filt={'n': {'ge': 1}})],
     'pretty': True},
    # numeric equality across int / float / bool, exact comparison of big ints with floats
    {'ops': [ins('c0', {'id': 'a', 'n': 1, 's': ''}), ins('c0', {'id': 'b', 'n': 1.0, 's': ''}), ins('c0', {'id': 'c', 'n': 2 ** 53 + 1, 's': ''}),
             ins('c0', {'id': 'd', 'n': float(2 ** 53), 's': ''}), qry('c0', filt={'n': 1}), qry('c0', filt={'n': {'gt': float(2 ** 53)}}),
             qry('c0', filt={'n': {'in': [2 ** 53, 1.0]}}), qry('c0', sort=[['n', False]])]},
    # filters on missing fields, in with an empty list, several operators
    {'ops': [ins('c1', {'id': 'a', 'n': 1}), ins('c1', {'id': 'b', 'n': 2, 's': 'x'}), qry('c1', filt={'s': 'x'}), qry('c1', filt={'s': {'in': []}}),
             qry('c1', filt={'n': {'gt': 0, 'le': 1}}), rem('c1', {'s': {'ge': ''}}), qry('c1')]},
    {'kind': 'codec', 'values': [enc(v) for v in [0, -1, 2 ** 64, -10 ** 30, 1.5, -0.0, 1e22, 1e23, 5e-324, True, False, None, [], {},
                                                  [[], [{}]], {'': ''}, datetime.date(2020, 1, 2), datetime.datetime(1000, 1, 1)]]},
]


def corpus(shards):
    k = known_slice(shards)
    rest = FIXED + REGRESSION
    # indices 0..len(k)-1 are spread evenly by the runner's `corpus[s::shards]`
    return k + rest

