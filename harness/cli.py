import argparse
import importlib
import os
import sys

from . import core


def main():
    ap = argparse.ArgumentParser(prog='check')
    ap.add_argument('prop')
    ap.add_argument('--tier', default=os.environ.get('VERIF_TIER', 'quick'), choices=['quick', 'thorough'])
    ap.add_argument('--replay')
    ap.add_argument('--seed', type=int, default=int(os.environ.get('VERIF_SEED', '0')))
    a = ap.parse_args()
    pid = a.prop.upper()
    core.redirect_repo()
    try:
        mod = importlib.import_module(f'harness.props.{pid.lower()}')
        rc = core.run_check(mod.PROP, a.tier, a.seed, a.replay)
    except core.Broken as e:
        print(f'BROKEN property={pid}: {e}')
        rc = core.EXIT_BROKEN
    sys.stdout.flush()
    os._exit(rc)


if __name__ == '__main__':
    main()
