"""In-process stand-in for remote qToggle devices (C07 harness): an `AsyncHTTPClient` implementation installed with
tornado's public `AsyncHTTPClient.configure(...)` (as startup.init_tornado does for the real one). It answers
GET /device and GET /ports for the hosts listed in REMOTES while `STATE['up']` is true, and refuses the connection
otherwise — battery-powered devices that were reachable when they were added and are permanently offline afterwards."""
import io
import json
from urllib.parse import urlparse

from tornado import httpclient

REMOTES = {}            # host -> {'device': {...}, 'ports': [...]}
STATE = {'up': True, 'calls': []}


class FakeClient(httpclient.AsyncHTTPClient):
    def initialize(self, defaults=None, **kwargs):
        super().initialize(defaults=defaults)

    def fetch_impl(self, request, callback):
        u = urlparse(request.url)
        STATE['calls'].append([request.method, u.hostname, u.path])
        remote = REMOTES.get(u.hostname)
        path = u.path.rstrip('/') or '/'
        body = None
        if STATE['up'] and remote is not None and request.method == 'GET':
            if path == '/device':
                body = remote['device']
            elif path == '/ports':
                body = remote['ports']
        if body is None:
            resp = httpclient.HTTPResponse(request, 599, error=ConnectionRefusedError(111, 'Connection refused'))
        else:
            resp = httpclient.HTTPResponse(request, 200, buffer=io.BytesIO(json.dumps(body).encode()),
                                           headers={'Content-Type': 'application/json'})
        self.io_loop.add_callback(callback, resp)
