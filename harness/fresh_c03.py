"""C03: one case in a FRESH interpreter (`/venv/bin/python -m harness.sub harness.fresh_c03 <mode>`, case as JSON on
stdin, answer as one JSON line on stdout). The expression classes of a long-lived worker process may carry state left
by earlier cases (on a changed tree: class attributes mutated by earlier parses); a failure is reported only when the
case alone, run from a fresh process, shows it — which is also what `./check C03 --replay` does.

modes: observe  -> the real-side observations of a 'multi' case (no model, no oracle): {"obs": [...]}
       run      -> the whole run_case (own model driver): {"failure": {...} | null}
`Zygote` gives the same observations of a 'multi' case much cheaper (a fork of a pristine copy of the worker).
"""
import json
import os
import subprocess
import sys

ENV_FLAG = 'VERIF_C03_FRESH'


def is_fresh_child():
    return os.environ.get(ENV_FLAG) == '1'


def call(mode, case, timeout=120):
    """-> the decoded answer of the fresh process, or raises harness.core.Broken."""
    from harness.core import VERIF, Broken
    env = dict(os.environ)
    env[ENV_FLAG] = '1'
    r = subprocess.run(['/venv/bin/python', '-m', 'harness.sub', 'harness.fresh_c03', mode], cwd=VERIF, env=env,
                       input=json.dumps(case), capture_output=True, text=True, timeout=timeout)
    for line in reversed(r.stdout.splitlines()):
        if line.startswith('{"fresh_c03":'):
            return json.loads(line)['fresh_c03']
    raise Broken(f'fresh process ({mode}) gave no answer (exit {r.returncode}): {r.stderr[-600:]}')


class Zygote:
    """A pristine copy of the calling process, forked in setup() before anything has been parsed; for every request it
    forks a throw-away child that makes the observations of one 'multi' case and exits. The child has exactly the state
    a fresh interpreter has after setup(), at the price of a fork (~ms) instead of an interpreter start (~1 s)."""

    def __init__(self, prop):
        r1, w1 = os.pipe()      # requests: owner -> zygote
        r2, w2 = os.pipe()      # answers: children of the zygote -> owner
        self.pid = os.fork()
        if self.pid == 0:
            try:
                os.close(w1)
                os.close(r2)
                os.environ[ENV_FLAG] = '1'
                with os.fdopen(r1, 'r') as fin:
                    for line in fin:        # ends when the owner closes its end (or dies)
                        cpid = os.fork()
                        if cpid == 0:
                            try:
                                out = json.dumps({'obs': prop._observe_multi(json.loads(line))}, default=str)
                            except BaseException as x:      # noqa
                                out = json.dumps({'error': repr(x)[:300]})
                            os.write(w2, (out + '\n').encode())
                            os._exit(0)
                        _, status = os.waitpid(cpid, 0)
                        if status != 0:
                            os.write(w2, (json.dumps({'error': f'observer died, status {status}'}) + '\n').encode())
            finally:
                os._exit(0)
        os.close(r1)
        os.close(w2)
        self.w = os.fdopen(w1, 'w')
        self.r = os.fdopen(r2, 'r')

    def observe(self, case):
        from harness.core import Broken
        self.w.write(json.dumps(case) + '\n')
        self.w.flush()
        line = self.r.readline()
        if not line:
            raise Broken('the pristine-process observer of C03 is gone')
        ans = json.loads(line)
        if 'error' in ans:
            raise RuntimeError('the pristine-process observer of C03 failed: ' + ans['error'])
        return ans['obs']

    def close(self):
        try:
            self.w.close()
            self.r.close()
            os.waitpid(self.pid, 0)
        except Exception:       # noqa
            pass


def main(args):
    from harness.core import Driver, check_repo_import
    check_repo_import()
    from harness.props.c03 import C03
    mode = args[0]
    case = json.loads(sys.stdin.read())
    prop = C03()
    prop.setup()
    driver = None
    try:
        if mode == 'observe':
            out = {'obs': prop._observe_multi(case)}
        elif mode == 'run':
            driver = Driver(prop.ID)
            f, _ = prop.run_case(case, driver)
            out = {'failure': None if f is None else f.to_json()}
        else:
            return 2
    finally:
        if driver:
            driver.close()
        prop.teardown()
    sys.stdout.write(json.dumps({'fresh_c03': out}, default=str) + '\n')
    sys.stdout.flush()
    return 0
