"""Shared machinery of the /verif checks: Lean proof gate, model driver, sharded correspondence runner,
shrinking, known findings, replay files, evidence files.

Run with /venv/bin/python (the interpreter the repository itself is installed in, editable from /repo).
"""
from __future__ import annotations

import hashlib
import json
import multiprocessing
import os
import random
import re
import subprocess
import sys
import time
import traceback

VERIF = os.path.dirname(os.path.dirname(os.path.abspath(__file__)))
LEAN = os.path.join(VERIF, 'lean')
REPO = os.path.realpath(os.environ.get('VERIF_REPO', '/repo'))
SCRATCH_REPO = REPO != os.path.realpath('/repo')
# Runs against a scratch worktree (mutation testing, VERIF_REPO=/tmp/...) never touch the committed evidence.
EVIDENCE_DIR = os.path.join(VERIF, 'evidence-scratch' if SCRATCH_REPO else 'evidence')
REPLAY_DIR = os.path.join(VERIF, 'replays')
KNOWN_FILE = os.path.join(VERIF, 'known_findings.json')
GUARD = 'QTOGGLESERVER_VERIF'

ALLOWED_AXIOMS = {'propext', 'Classical.choice', 'Quot.sound'}
FORBIDDEN = re.compile(
    r'\b(sorry|admit|native_decide|bv_decide|implemented_by|unsafe)\b|^\s*axiom\s|maxHeartbeats\s+0\b', re.M
)

EXIT_OK, EXIT_VIOLATION, EXIT_BROKEN = 0, 1, 2


class Broken(Exception):
    """The machinery itself could not run (exit 2; never a violation)."""


# --------------------------------------------------------------------------------------------------
# Lean side
# --------------------------------------------------------------------------------------------------

def _strip_lean_comments(text: str) -> str:
    # nested block comments /- ... -/ and line comments --
    out = []
    i, depth, n = 0, 0, len(text)
    while i < n:
        if text.startswith('/-', i):
            depth += 1
            i += 2
        elif depth and text.startswith('-/', i):
            depth -= 1
            i += 2
        elif depth:
            if text[i] == '\n':
                out.append('\n')
            i += 1
        elif text.startswith('--', i):
            j = text.find('\n', i)
            i = n if j < 0 else j
        else:
            out.append(text[i])
            i += 1
    return ''.join(out)


def lean_sources() -> list[str]:
    res = []
    for root in ('QtVerif', 'Driver'):
        for d, _, files in os.walk(os.path.join(LEAN, root)):
            for f in files:
                if f.endswith('.lean'):
                    res.append(os.path.join(d, f))
    return sorted(res)


def lean_closure(prop_id: str, extra_props: tuple = ()) -> list[str]:
    """Source files of this project that Props/<id>.lean and Driver/<id>.lean import, transitively."""
    todo = [f'QtVerif.Props.{prop_id}', f'Driver.{prop_id}'] + [f'QtVerif.Props.{x}' for x in extra_props]
    seen: dict[str, str] = {}
    while todo:
        mod = todo.pop()
        if mod in seen:
            continue
        path = os.path.join(LEAN, *mod.split('.')) + '.lean'
        if not os.path.exists(path):
            continue
        seen[mod] = path
        for m in re.finditer(r'^\s*(?:public\s+)?import\s+((?:QtVerif|Driver)\.\S+)', open(path, encoding='utf-8').read(), re.M):
            todo.append(m.group(1))
    return sorted(seen.values())


def forbidden_tokens(prop_id: str | None = None, extra_props: tuple = ()) -> list[str]:
    hits = []
    for p in (lean_closure(prop_id, extra_props) if prop_id else lean_sources()):
        text = _strip_lean_comments(open(p, encoding='utf-8').read())
        for m in FORBIDDEN.finditer(text):
            line = text.count('\n', 0, m.start()) + 1
            hits.append(f'{os.path.relpath(p, LEAN)}:{line}: {m.group(0).strip()}')
    return hits


def _run(cmd, cwd=LEAN, timeout=1800, input=None):
    return subprocess.run(cmd, cwd=cwd, capture_output=True, text=True, timeout=timeout, input=input)


def theorem_names(prop_id: str) -> list[str]:
    """Fully qualified names of the `theorem`s stated in Props/<id>.lean (or in module `QtVerif.Props.X` given as X)."""
    path = os.path.join(LEAN, 'QtVerif', 'Props', f'{prop_id}.lean')
    text = _strip_lean_comments(open(path, encoding='utf-8').read())
    names = []
    ns: list[str] = []
    for line in text.splitlines():
        m = re.match(r'\s*namespace\s+(\S+)', line)
        if m:
            ns.append(m.group(1))
            continue
        m = re.match(r'\s*end\s+(\S+)', line)
        if m and ns and ns[-1] == m.group(1):
            ns.pop()
            continue
        m = re.match(r'\s*(?:@\[[^\]]*\]\s*)?(?:private\s+|protected\s+)?theorem\s+(\S+)', line)
        if m:
            names.append('.'.join(ns + [m.group(1)]))
    return names


def proof_gate(prop_id: str, tier: str, extra_props: tuple = ()) -> dict:
    """Build the property's theorems and driver, grep for forbidden tokens, audit axioms.
    Returns a dict for the evidence file; `ok` False means an obligation is not discharged."""
    t0 = time.monotonic()
    res = {'ok': True, 'problems': [], 'theorems': [], 'axioms': {}, 'obligations': 0, 'discharged': 0}
    targets = [f'QtVerif.Props.{prop_id}'] + [f'QtVerif.Props.{x}' for x in extra_props]
    if os.path.exists(os.path.join(LEAN, 'Driver', f'{prop_id}.lean')):
        targets.append(f'Driver.{prop_id}')
    cmd = ['lake', 'build'] + targets
    res['checker_cmd'] = 'cd lean && ' + ' '.join(cmd) + ' && lake env lean <#print axioms audit>'
    r = _run(cmd)
    if r.returncode != 0:
        res['ok'] = False
        res['problems'].append('lake build failed: ' + (r.stdout + r.stderr)[-2000:])
        return res
    hits = forbidden_tokens(prop_id, extra_props)
    res['sources'] = [os.path.relpath(p, LEAN) for p in lean_closure(prop_id, extra_props)]
    if hits:
        res['ok'] = False
        res['problems'].append('forbidden tokens: ' + '; '.join(hits))
    names = theorem_names(prop_id)
    for x in extra_props:           # integration corollaries audited together with this property
        names += theorem_names(x)
    res['theorems'] = names
    res['obligations'] = len(names)
    if not names:
        res['ok'] = False
        res['problems'].append('no theorems found')
        return res
    audit = f'import QtVerif.Props.{prop_id}\n' + ''.join(f'import QtVerif.Props.{x}\n' for x in extra_props) + ''.join(f'#print axioms {n}\n' for n in names)
    tmp = os.path.join(LEAN, '.lake', f'audit_{prop_id}_{os.getpid()}.lean')
    with open(tmp, 'w') as f:
        f.write(audit)
    try:
        r = _run(['lake', 'env', 'lean', tmp])
    finally:
        os.unlink(tmp)
    out = r.stdout + r.stderr
    if r.returncode != 0:
        res['ok'] = False
        res['problems'].append('axiom audit failed: ' + out[-2000:])
        return res
    # "'name' depends on axioms: [a, b]"  |  "'name' does not depend on any axioms"
    found = {}
    for m in re.finditer(r"'([^']+)' depends on axioms: \[([^\]]*)\]", out.replace('\n ', ' ').replace('\n', ' ')):
        found[m.group(1)] = [a.strip() for a in m.group(2).split(',') if a.strip()]
    for m in re.finditer(r"'([^']+)' does not depend on any axioms", out):
        found[m.group(1)] = []
    discharged = 0
    for n in names:
        if n not in found:
            res['ok'] = False
            res['problems'].append(f'no axiom report for {n}')
            continue
        bad = [a for a in found[n] if a not in ALLOWED_AXIOMS]
        if bad:
            res['ok'] = False
            res['problems'].append(f'{n} depends on non-standard axioms {bad}')
        else:
            discharged += 1
    res['axioms'] = found
    res['discharged'] = discharged
    if tier == 'thorough':
        mods = [f'QtVerif.Props.{prop_id}'] + [f'QtVerif.Props.{x}' for x in extra_props]
        r = _run(['lake', 'env', 'leanchecker'] + mods, timeout=3600)
        res['leanchecker'] = {'modules': mods, 'returncode': r.returncode, 'tail': (r.stdout + r.stderr)[-300:]}
        if r.returncode != 0:
            res['ok'] = False
            res['problems'].append('leanchecker rejected ' + ' '.join(mods))
    res['wall_s'] = round(time.monotonic() - t0, 2)
    return res


class Driver:
    """A running Lean model driver (`lake env lean --run Driver/<id>.lean`) speaking the line protocol."""

    def __init__(self, prop_id: str):
        self.prop_id = prop_id
        exe = os.path.join(LEAN, '.lake', 'build', 'bin', f'drv_{prop_id.lower()}')
        if os.path.exists(exe) and os.environ.get('VERIF_DRIVER_EXE', '1') == '1':
            cmd = [exe]
        else:
            cmd = ['lake', 'env', 'lean', '--run', f'Driver/{prop_id}.lean']
        self.proc = subprocess.Popen(
            cmd, cwd=LEAN, stdin=subprocess.PIPE, stdout=subprocess.PIPE, stderr=subprocess.PIPE, text=True, bufsize=1
        )
        self.lines = 0

    def ask(self, line: str) -> str:
        assert '\n' not in line
        try:
            self.proc.stdin.write(line + '\n')
            self.proc.stdin.flush()
            reply = self.proc.stdout.readline()
        except BrokenPipeError:
            reply = ''
        if not reply:
            err = self.proc.stderr.read()
            raise Broken(f'model driver {self.prop_id} died on line {line!r}: {err[-1000:]}')
        self.lines += 1
        return reply.rstrip('\n')

    def ask_many(self, lines: list[str]) -> list[str]:
        return [self.ask(l) for l in lines]

    def close(self):
        try:
            self.proc.stdin.close()
            self.proc.wait(timeout=10)
        except Exception:
            self.proc.kill()


# --------------------------------------------------------------------------------------------------
# Property plug-in interface
# --------------------------------------------------------------------------------------------------

class Failure:
    """One failing case. kind: 'property' (the property statement fails on the real code, `detail` says
    how) or 'correspondence' (model and code disagree on an observable)."""

    def __init__(self, kind: str, detail: str, real=None, model=None, where: str = ''):
        self.kind = kind
        self.detail = detail
        self.real = real
        self.model = model
        self.where = where

    def to_json(self):
        return {'kind': self.kind, 'detail': self.detail, 'real': self.real, 'model': self.model, 'where': self.where}


class Prop:
    """Base class of a property check. Subclasses live in harness/props/cNN.py."""

    ID = 'C00'
    DRIVER = True                 # has a Lean driver
    N_QUICK = 1000
    N_THOROUGH = 20000
    SHARDS = 16
    RULE = ''                     # how cases are generated and what counts as non-trivial
    TRUSTED = []                  # trusted base lines specific to this property
    ASSUMPTIONS = []
    CORRESPONDENCE = ''           # "model function <-> code entry point" named in replay files
    CASE_TIMEOUT = 60

    # ---- per-worker life-cycle ----
    def setup(self):              # called once in each worker process before any case
        pass

    def teardown(self):
        pass

    # ---- cases ----
    def corpus(self) -> list:
        return []

    def gen(self, rng: random.Random, tier: str):
        raise NotImplementedError

    def run_case(self, case, driver) -> tuple:
        """Run the case on the real code and on the model and evaluate the property oracle on the real
        observations. Returns (failure_or_None, info) with info = {'tags': [...], 'key': hashable-or-None}
        where key identifies a distinct non-trivial case."""
        raise NotImplementedError

    def shrink_candidates(self, case):
        return []

    def known_match(self, finding: dict, case, failure: Failure) -> bool:
        return False

    def exhaustive(self, tier: str) -> bool:
        return False


def _case_hash(case) -> str:
    return hashlib.sha256(json.dumps(case, sort_keys=True, default=str).encode()).hexdigest()[:12]


def load_known(prop_id: str) -> list[dict]:
    if not os.path.exists(KNOWN_FILE):
        return []
    findings = list(json.load(open(KNOWN_FILE)).get('findings', []))
    extra = os.path.join(VERIF, 'known.d', f'{prop_id}.json')     # per-property part of the committed list
    if os.path.exists(extra):
        findings += json.load(open(extra)).get('findings', [])
    return [f for f in findings if f.get('property') == prop_id and f.get('status') == 'known']


def _shrink(prop: Prop, case, failure: Failure, driver, budget_s: float = 60.0):
    """Greedy shrinking. Prefers candidates that still fail with a *property* failure when the original
    was one; for correspondence failures, remembers any property failure met on the way."""
    t0 = time.monotonic()
    best, best_f = case, failure
    prop_fail = (case, failure) if failure.kind == 'property' else None
    improved = True
    while improved and time.monotonic() - t0 < budget_s:
        improved = False
        for cand in prop.shrink_candidates(best):
            if time.monotonic() - t0 > budget_s:
                break
            try:
                f, _ = prop.run_case(cand, driver)
            except Broken:
                raise
            except Exception:
                continue
            if f is None:
                continue
            if f.kind == 'property' and prop_fail is None:
                prop_fail = (cand, f)
            if best_f.kind == 'property' and f.kind != 'property':
                continue
            best, best_f = cand, f
            if f.kind == 'property':
                prop_fail = (cand, f)
            improved = True
            break
    if best_f.kind != 'property' and prop_fail is not None:
        return prop_fail
    return best, best_f


def _worker(args):
    prop_cls, shard, nshards, n_cases, seed, tier, corpus_slice, max_fail = args
    prop: Prop = prop_cls()
    stats = {'evaluations': 0, 'tags': {}, 'keys': set(), 'samples': [], 'failures': [], 'errors': []}
    driver = None
    try:
        prop.setup()
        driver = Driver(prop.ID) if prop.DRIVER else None
        rng = random.Random(f'{seed}/{prop.ID}/{shard}')
        cases = [('corpus', c) for c in corpus_slice]
        k = 0
        deadline = time.monotonic() + float(os.environ.get('VERIF_SHARD_BUDGET_S', '1e9'))
        while k < n_cases:
            cases.append(('gen', None))
            k += 1
        for origin, case in cases:
            if time.monotonic() > deadline:
                stats['errors'].append('shard budget exhausted')
                break
            if origin == 'gen':
                case = prop.gen(rng, tier)
            try:
                failure, info = prop.run_case(case, driver)
            except Broken:
                raise
            except Exception:
                stats['errors'].append('harness exception on case ' + json.dumps(case, default=str)[:2000] + '\n' +
                                       traceback.format_exc()[-3000:])
                if len(stats['errors']) > 3:
                    break
                continue
            stats['evaluations'] += 1
            for t in info.get('tags', ()):
                stats['tags'][t] = stats['tags'].get(t, 0) + 1
            key = info.get('key')
            if key is not None:
                stats['keys'].add(key if isinstance(key, str) else json.dumps(key, sort_keys=True, default=str))
            if len(stats['samples']) < 2 and origin == 'gen':
                stats['samples'].append({'case': case, 'observed': info.get('observed')})
            if failure is not None:
                small, sf = _shrink(prop, case, failure, driver)
                stats['failures'].append({'origin': origin, 'case': small, 'original_case': case,
                                          'failure': sf.to_json()})
                if len(stats['failures']) >= max_fail:
                    break
    except Broken as e:
        stats['errors'].append('BROKEN: ' + str(e))
    except Exception:
        stats['errors'].append('worker crashed: ' + traceback.format_exc()[-3000:])
    finally:
        try:
            if driver:
                stats['driver_lines'] = driver.lines
                driver.close()
            prop.teardown()
        except Exception:
            pass
    stats['keys'] = sorted(stats['keys'])[:200000]
    return stats


def write_evidence(prop: Prop, tier: str, seed: int, gate: dict, agg: dict, wall: float, violations: int, known_hit):
    os.makedirs(EVIDENCE_DIR, exist_ok=True)
    trusted = [
        'Lean 4.33.0 kernel; axioms of every property theorem are a subset of {propext, Classical.choice, Quot.sound}',
        'hand-written Lean model; tied to /repo by the correspondence check of this run (differential testing, '
        'coverage as reported here)',
        'CPython, asyncio, third-party libraries and the harness (generators, canonicalisers, virtual clock)',
    ] + list(prop.TRUSTED)
    cov = {
        'obligations': gate.get('obligations', 0),
        'discharged': gate.get('discharged', 0),
        'checker_cmd': gate.get('checker_cmd', ''),
        'trusted_base': trusted,
        'theorems': gate.get('theorems', []),
        'lean_sources': gate.get('sources', []),
        'axioms': gate.get('axioms', {}),
        'evaluations': agg['evaluations'],
        'distinct_nontrivial': len(agg['keys']),
        'traces_validated_against_impl': agg['evaluations'],
        'rule': prop.RULE,
        'samples': agg['samples'][:4] or [{'note': 'no generated case in this run'}],
        'distribution': dict(sorted(agg['tags'].items())),
        'driver_lines': agg.get('driver_lines', 0),
        'exhaustive': bool(prop.exhaustive(tier)),
        'known_findings_hit': known_hit,
        'proof_gate_problems': gate.get('problems', []),
        'harness_errors': agg['errors'][:5],
        'repo': REPO,
    }
    if 'leanchecker' in gate:
        cov['leanchecker'] = gate['leanchecker']
    ev = {
        'property_id': prop.ID,
        'tier': tier,
        'seed': seed,
        'level': 'proof',
        'coverage': cov,
        'assumptions': list(prop.ASSUMPTIONS),
        'wall_s': round(wall, 2),
        'violations': violations,
    }
    path = os.path.join(EVIDENCE_DIR, f'{prop.ID}.json')
    tmp = path + f'.tmp{os.getpid()}'
    with open(tmp, 'w') as f:
        json.dump(ev, f, indent=1, default=str)
    os.replace(tmp, path)
    return path


def write_replay(prop: Prop, name: str, payload: dict) -> str:
    os.makedirs(REPLAY_DIR, exist_ok=True)
    path = os.path.join(REPLAY_DIR, f'{prop.ID}-{name}.json')
    with open(path, 'w') as f:
        json.dump(payload, f, indent=1, default=str)
    return os.path.relpath(path, VERIF)


def redirect_repo():
    """Make `import qtoggleserver` resolve to VERIF_REPO (default /repo, where the venv's editable install points
    anyway). Must be called before anything of qtoggleserver is imported; subprocesses spawned by a harness must
    call it too (or be started through `python -m harness.sub`)."""
    if SCRATCH_REPO:
        for k in [k for k in sys.modules if k == 'qtoggleserver' or k.startswith('qtoggleserver.')]:
            del sys.modules[k]
        if REPO not in sys.path:
            sys.path.insert(0, REPO)


def check_repo_import():
    redirect_repo()
    import qtoggleserver.version as v  # noqa
    p = os.path.realpath(v.__file__)
    if not p.startswith(os.path.realpath(REPO) + os.sep):
        raise Broken(f'qtoggleserver is imported from {p}, not from {REPO}')


def run_check(prop_cls, tier: str, seed: int, replay: str | None = None) -> int:
    t0 = time.monotonic()
    prop: Prop = prop_cls()
    os.environ[GUARD] = '1'
    os.environ.setdefault('PYTHONHASHSEED', '0')
    check_repo_import()

    if replay:
        payload = json.load(open(replay))
        case = payload.get('case')
        if case is None:
            print(f'replay file names no concrete case: {payload.get("unchecked")}')
            return EXIT_VIOLATION
        st = _worker((prop_cls, 0, 1, 0, seed, tier, [case], 1))
        for e in st['errors']:
            print('ERROR', e)
        if st['failures']:
            print(json.dumps(st['failures'][0]['failure'], indent=1, default=str))
            print(f'VIOLATION property={prop.ID} replay={replay}')
            return EXIT_VIOLATION
        print('replayed case passes')
        return EXIT_OK if not st['errors'] else EXIT_BROKEN

    gate = proof_gate(prop.ID, tier, tuple(getattr(prop, 'EXTRA_PROPS', ())))

    n = prop.N_QUICK if tier == 'quick' else prop.N_THOROUGH
    n = int(os.environ.get('VERIF_CASES', n))
    ncpu = os.cpu_count() or 1
    if 'VERIF_JOBS' not in os.environ:
        # do not pile 16 more processes onto a machine that is already saturated (several checks running at once)
        try:
            ncpu = max(4, ncpu - int(os.getloadavg()[0]))
        except OSError:
            pass
    shards = max(1, min(prop.SHARDS, int(os.environ.get('VERIF_JOBS', ncpu)), max(1, n)))
    corpus = prop.corpus()
    jobs = []
    for s in range(shards):
        share = n // shards + (1 if s < n % shards else 0)
        jobs.append((prop_cls, s, shards, share, seed, tier, corpus[s::shards], 3))
    agg = {'evaluations': 0, 'tags': {}, 'keys': set(), 'samples': [], 'failures': [], 'errors': [], 'driver_lines': 0}
    if gate['ok'] or os.path.exists(os.path.join(LEAN, 'Driver', f'{prop.ID}.lean')) or not prop.DRIVER:
        ctx = multiprocessing.get_context('fork')
        with ctx.Pool(shards) as pool:
            results = pool.map_async(_worker, jobs)
            try:
                results = results.get(timeout=float(os.environ.get('VERIF_TIMEOUT_S', 3000 if tier == 'quick' else 14000)))
            except multiprocessing.TimeoutError:
                pool.terminate()
                print(f'BROKEN property={prop.ID}: timed out')
                return EXIT_BROKEN
        for st in results:
            agg['evaluations'] += st['evaluations']
            for k, v in st['tags'].items():
                agg['tags'][k] = agg['tags'].get(k, 0) + v
            agg['keys'].update(st['keys'])
            agg['samples'].extend(st['samples'])
            agg['failures'].extend(st['failures'])
            agg['errors'].extend(st['errors'])
            agg['driver_lines'] += st.get('driver_lines', 0)

    known = load_known(prop.ID)
    known_hit: dict[str, int] = {}
    violations = []
    for fl in agg['failures']:
        failure = Failure(**fl['failure'])
        hit = None
        for k in known:
            try:
                if prop.known_match(k, fl['case'], failure):
                    hit = k
                    break
            except Exception:
                pass
        if hit is not None:
            known_hit[hit['id']] = known_hit.get(hit['id'], 0) + 1
        else:
            violations.append(fl)

    lines = []
    seen = set()
    for fl in violations:
        h = _case_hash(fl['case'])
        if h in seen:
            continue
        seen.add(h)
        f = fl['failure']
        payload = {'property': prop.ID, 'case': fl['case'], 'original_case': fl['original_case'], 'failure': f,
                   'seed': seed, 'tier': tier,
                   'replay_cmd': f'./check {prop.ID} --replay replays/{prop.ID}-{h}.json'}
        suffix = ''
        if f['kind'] != 'property':
            payload['unchecked'] = {'correspondence': prop.CORRESPONDENCE,
                                    'note': 'model and code disagree on this case; the property oracle found no '
                                            'failing input on the real code'}
            suffix = ' no-failing-input-found'
        path = write_replay(prop, h, payload)
        lines.append(f'VIOLATION property={prop.ID} replay={path}{suffix}')
    if not gate['ok']:
        # A proof obligation is not discharged: the failing-input search above is all we have.
        if not any('no-failing-input-found' not in l for l in lines):
            path = write_replay(prop, 'proofgate', {'property': prop.ID, 'unchecked': {
                'theorems': gate.get('theorems'), 'problems': gate.get('problems')}, 'case': None})
            lines.append(f'VIOLATION property={prop.ID} replay={path} no-failing-input-found')

    broken = bool(agg['errors']) and not lines
    wall = time.monotonic() - t0
    ev = write_evidence(prop, tier, seed, gate, agg, wall, len(lines), known_hit)
    for k in known:
        if known_hit.get(k['id']):
            print(f'KNOWN-FINDING: property={prop.ID} {k["id"]}: {k["what"]} (hit {known_hit[k["id"]]}x)')
    print(f'{prop.ID} {tier} seed={seed}: theorems {gate["discharged"]}/{gate["obligations"]} discharged, '
          f'{agg["evaluations"]} cases, {len(agg["keys"])} distinct non-trivial, {wall:.1f}s, evidence={os.path.relpath(ev, VERIF)}')
    for e in agg['errors'][:5]:
        print('HARNESS-ERROR', e)
    for p in gate.get('problems', []):
        print('PROOF-GATE', p)
    for l in lines[:10]:
        print(l)
    if lines:
        return EXIT_VIOLATION
    if broken:
        return EXIT_BROKEN
    return EXIT_OK
